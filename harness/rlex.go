package main

// R-lex: independent lexer for Lua 5.3 ∪ 5.4 (+ LuaJIT LL/ULL integer suffixes), written from the
// reference manual (§3.1). Shares no code with LuaHelper's lexer. Produces tokens with exact byte
// offsets; (line, UTF-16 column) are derived through R-text's line table.

import (
	"fmt"
	"strings"
)

type TK int

const (
	TEOF TK = iota
	TName
	TKeyword
	TNumber
	TString
	TOp
)

type Tok struct {
	K     TK
	Text  string // raw source text
	Val   string // decoded string value / name
	Off   int    // byte offset of first byte
	End   int    // byte offset after last byte
	Long  bool   // long-bracket string
	Idx   int    // index in the token slice
	DCare bool   // numeral form the property statement does not settle (e.g. 1.5LL, 1i)
}

func (t *Tok) String() string { return fmt.Sprintf("%q@%d", t.Text, t.Off) }

type Comment struct {
	Off, End int
	Long     bool
	Text     string // without the leading -- and brackets
}

type LexResult struct {
	Src      []byte
	Toks     []*Tok // ends with TEOF
	Comments []Comment
	Err      string // first lexical error ("" if none)
	ErrOff   int
	DCare    bool // contains a don't-care lexical form
}

var luaKeywords = map[string]bool{"and": true, "break": true, "do": true, "else": true, "elseif": true, "end": true,
	"false": true, "for": true, "function": true, "goto": true, "if": true, "in": true, "local": true, "nil": true,
	"not": true, "or": true, "repeat": true, "return": true, "then": true, "true": true, "until": true, "while": true}

func isAlpha(c byte) bool  { return c == '_' || (c >= 'a' && c <= 'z') || (c >= 'A' && c <= 'Z') }
func isDigit(c byte) bool  { return c >= '0' && c <= '9' }
func isXDigit(c byte) bool { return isDigit(c) || (c >= 'a' && c <= 'f') || (c >= 'A' && c <= 'F') }
func isAlnum(c byte) bool  { return isAlpha(c) || isDigit(c) }
func isSpace(c byte) bool {
	return c == ' ' || c == '\t' || c == '\n' || c == '\r' || c == '\f' || c == '\v'
}

type rlexer struct {
	s   []byte
	i   int
	res *LexResult
}

func (l *rlexer) fail(off int, f string, a ...interface{}) {
	if l.res.Err == "" {
		l.res.Err = fmt.Sprintf(f, a...)
		l.res.ErrOff = off
	}
}

// longBracket: at s[i]=='[' returns level>=0 if a long bracket opens here, else -1.
func (l *rlexer) longBracketLevel(i int) int {
	if i >= len(l.s) || l.s[i] != '[' {
		return -1
	}
	j := i + 1
	for j < len(l.s) && l.s[j] == '=' {
		j++
	}
	if j < len(l.s) && l.s[j] == '[' {
		return j - i - 1
	}
	return -1
}

// readLong reads a long bracket of the given level starting at i ('['); returns content and end offset, ok=false if unterminated.
func (l *rlexer) readLong(i, level int) (string, int, bool) {
	j := i + level + 2
	// first newline skipped
	if j < len(l.s) && (l.s[j] == '\n' || l.s[j] == '\r') {
		c := l.s[j]
		j++
		if j < len(l.s) && (l.s[j] == '\n' || l.s[j] == '\r') && l.s[j] != c {
			j++
		}
	}
	start := j
	for j < len(l.s) {
		if l.s[j] == ']' {
			k := j + 1
			for k < len(l.s) && l.s[k] == '=' {
				k++
			}
			if k-j-1 == level && k < len(l.s) && l.s[k] == ']' {
				return string(l.s[start:j]), k + 1, true
			}
		}
		j++
	}
	return "", len(l.s), false
}

func RLex(src []byte) *LexResult {
	res := &LexResult{Src: src}
	l := &rlexer{s: src, res: res}
	s := src
	// first line starting with '#' is skipped (luaL_loadfile)
	if len(s) > 0 && s[0] == '#' {
		for l.i < len(s) && s[l.i] != '\n' && s[l.i] != '\r' {
			l.i++
		}
	}
	add := func(k TK, off, end int) *Tok {
		t := &Tok{K: k, Text: string(s[off:end]), Off: off, End: end, Idx: len(res.Toks)}
		res.Toks = append(res.Toks, t)
		return t
	}
	for {
		for l.i < len(s) && isSpace(s[l.i]) {
			l.i++
		}
		if l.i >= len(s) {
			break
		}
		c := s[l.i]
		off := l.i
		switch {
		case c == '-' && l.i+1 < len(s) && s[l.i+1] == '-':
			// comment
			j := l.i + 2
			if lv := l.longBracketLevel(j); lv >= 0 {
				txt, end, ok := l.readLong(j, lv)
				if !ok {
					l.fail(off, "unfinished long comment")
					l.i = len(s)
					break
				}
				res.Comments = append(res.Comments, Comment{off, end, true, txt})
				l.i = end
			} else {
				for j < len(s) && s[j] != '\n' && s[j] != '\r' {
					j++
				}
				res.Comments = append(res.Comments, Comment{off, j, false, string(s[off+2 : j])})
				l.i = j
			}
		case isAlpha(c):
			j := l.i
			for j < len(s) && isAlnum(s[j]) {
				j++
			}
			w := string(s[l.i:j])
			if luaKeywords[w] {
				add(TKeyword, l.i, j)
			} else {
				add(TName, l.i, j).Val = w
			}
			l.i = j
		case isDigit(c) || (c == '.' && l.i+1 < len(s) && isDigit(s[l.i+1])):
			l.number()
		case c == '"' || c == '\'':
			l.shortString()
		case c == '[' && l.longBracketLevel(l.i) >= 0:
			lv := l.longBracketLevel(l.i)
			txt, end, ok := l.readLong(l.i, lv)
			if !ok {
				l.fail(off, "unfinished long string")
				l.i = len(s)
				break
			}
			t := add(TString, off, end)
			t.Val = txt
			t.Long = true
			l.i = end
		case c == '[' && l.i+1 < len(s) && s[l.i+1] == '=':
			// "[=" not followed by a proper opener: real Lua reports "invalid long string delimiter"
			j := l.i + 1
			for j < len(s) && s[j] == '=' {
				j++
			}
			l.fail(off, "invalid long string delimiter")
			add(TOp, off, off+1)
			l.i = off + 1
		default:
			ops3 := []string{"..."}
			ops2 := []string{"==", "~=", "<=", ">=", "<<", ">>", "//", "::", ".."}
			matched := false
			for _, o := range ops3 {
				if strings.HasPrefix(string(s[l.i:min(l.i+3, len(s))]), o) {
					add(TOp, l.i, l.i+3)
					l.i += 3
					matched = true
					break
				}
			}
			if matched {
				break
			}
			for _, o := range ops2 {
				if l.i+2 <= len(s) && string(s[l.i:l.i+2]) == o {
					add(TOp, l.i, l.i+2)
					l.i += 2
					matched = true
					break
				}
			}
			if matched {
				break
			}
			if strings.IndexByte("+-*/%^#&~|<>=(){}[];:,.", c) >= 0 {
				add(TOp, l.i, l.i+1)
				l.i++
			} else {
				l.fail(off, "unexpected symbol 0x%02x", c)
				// consume the whole UTF-8 sequence / byte so we can go on
				l.i++
				for l.i < len(s) && s[l.i]&0xC0 == 0x80 {
					l.i++
				}
			}
		}
	}
	add(TEOF, len(s), len(s))
	return res
}

func min(a, b int) int {
	if a < b {
		return a
	}
	return b
}

// number follows llex.c read_numeral: consume [0-9a-zA-Z_.] plus a sign after an exponent marker, then validate.
func (l *rlexer) number() {
	s := l.s
	off := l.i
	j := l.i
	hex := false
	if s[j] == '0' && j+1 < len(s) && (s[j+1] == 'x' || s[j+1] == 'X') {
		hex = true
		j += 2
	}
	for j < len(s) {
		c := s[j]
		if hex && (c == 'p' || c == 'P') || !hex && (c == 'e' || c == 'E') {
			j++
			if j < len(s) && (s[j] == '+' || s[j] == '-') {
				j++
			}
			continue
		}
		if isXDigit(c) || c == '.' || isAlnum(c) {
			j++
			continue
		}
		break
	}
	txt := string(s[off:j])
	t := &Tok{K: TNumber, Text: txt, Off: off, End: j, Idx: len(l.res.Toks)}
	l.res.Toks = append(l.res.Toks, t)
	l.i = j
	ok, dcare := validNumeral(txt)
	if dcare {
		t.DCare = true
		l.res.DCare = true
		return
	}
	if !ok {
		l.fail(off, "malformed number near %q", txt)
	}
}

// validNumeral decides whether txt (already delimited as read_numeral would) is a numeral of Lua 5.3/5.4
// or a LuaJIT integer with LL/ULL suffix. dcare marks forms the property statement leaves open.
func validNumeral(txt string) (ok bool, dcare bool) {
	body := txt
	low := strings.ToLower(txt)
	suffix := ""
	for _, sf := range []string{"ull", "llu", "ll"} {
		if strings.HasSuffix(low, sf) {
			suffix = sf
			body = txt[:len(txt)-len(sf)]
			break
		}
	}
	if suffix == "" && (strings.HasSuffix(low, "i") && !strings.HasPrefix(low, "0x")) {
		// LuaJIT imaginary numbers: not in the statement
		if k, _ := validPlain(txt[:len(txt)-1]); k != 0 {
			return false, true
		}
	}
	kind, _ := validPlain(body) // 0 invalid, 1 integer, 2 float
	if suffix != "" {
		if kind == 1 {
			if suffix == "llu" {
				return true, true
			}
			return true, false
		}
		if kind == 2 {
			return false, true // 1.5LL: LuaJIT rejects, statement silent
		}
		// maybe the 'll' was part of a hex float? no: invalid
		return false, false
	}
	return kind != 0, false
}

func validPlain(b string) (int, bool) {
	if b == "" {
		return 0, false
	}
	i := 0
	n := len(b)
	if n >= 2 && b[0] == '0' && (b[1] == 'x' || b[1] == 'X') {
		i = 2
		digits := 0
		for i < n && isXDigit(b[i]) {
			i++
			digits++
		}
		isFloat := false
		if i < n && b[i] == '.' {
			isFloat = true
			i++
			for i < n && isXDigit(b[i]) {
				i++
				digits++
			}
		}
		if digits == 0 {
			return 0, false
		}
		if i < n && (b[i] == 'p' || b[i] == 'P') {
			isFloat = true
			i++
			if i < n && (b[i] == '+' || b[i] == '-') {
				i++
			}
			d := 0
			for i < n && isDigit(b[i]) {
				i++
				d++
			}
			if d == 0 {
				return 0, false
			}
		}
		if i != n {
			return 0, false
		}
		if isFloat {
			return 2, true
		}
		return 1, true
	}
	digits := 0
	for i < n && isDigit(b[i]) {
		i++
		digits++
	}
	isFloat := false
	if i < n && b[i] == '.' {
		isFloat = true
		i++
		for i < n && isDigit(b[i]) {
			i++
			digits++
		}
	}
	if digits == 0 {
		return 0, false
	}
	if i < n && (b[i] == 'e' || b[i] == 'E') {
		isFloat = true
		i++
		if i < n && (b[i] == '+' || b[i] == '-') {
			i++
		}
		d := 0
		for i < n && isDigit(b[i]) {
			i++
			d++
		}
		if d == 0 {
			return 0, false
		}
	}
	if i != n {
		return 0, false
	}
	if isFloat {
		return 2, true
	}
	return 1, true
}

func (l *rlexer) shortString() {
	s := l.s
	off := l.i
	q := s[l.i]
	j := l.i + 1
	var val []byte
	for {
		if j >= len(s) {
			l.fail(off, "unfinished string")
			break
		}
		c := s[j]
		if c == q {
			j++
			break
		}
		if c == '\n' || c == '\r' {
			l.fail(off, "unfinished string (newline)")
			break
		}
		if c != '\\' {
			val = append(val, c)
			j++
			continue
		}
		j++
		if j >= len(s) {
			l.fail(off, "unfinished string (escape at EOF)")
			break
		}
		e := s[j]
		switch e {
		case 'a':
			val = append(val, 7)
			j++
		case 'b':
			val = append(val, 8)
			j++
		case 'f':
			val = append(val, 12)
			j++
		case 'n':
			val = append(val, '\n')
			j++
		case 'r':
			val = append(val, '\r')
			j++
		case 't':
			val = append(val, '\t')
			j++
		case 'v':
			val = append(val, 11)
			j++
		case '\\', '"', '\'':
			val = append(val, e)
			j++
		case '\n', '\r':
			val = append(val, '\n')
			j++
			if j < len(s) && (s[j] == '\n' || s[j] == '\r') && s[j] != e {
				j++
			}
		case 'z':
			j++
			for j < len(s) && isSpace(s[j]) {
				j++
			}
		case 'x':
			if j+2 < len(s) && isXDigit(s[j+1]) && isXDigit(s[j+2]) {
				var v byte
				fmt.Sscanf(string(s[j+1:j+3]), "%02x", &v)
				val = append(val, v)
				j += 3
			} else {
				l.fail(j-1, "escape: hexadecimal digit expected")
				j++
			}
		case 'u':
			k := j + 1
			if k < len(s) && s[k] == '{' {
				k++
				d := 0
				var v uint64
				for k < len(s) && isXDigit(s[k]) {
					var x uint64
					fmt.Sscanf(string(s[k:k+1]), "%x", &x)
					v = v*16 + x
					if v > 0x7FFFFFFF {
						v = 0x80000000
					}
					k++
					d++
				}
				if d == 0 || k >= len(s) || s[k] != '}' {
					l.fail(j-1, "escape: malformed \\u{XXX} escape")
					j = k
				} else if v > 0x7FFFFFFF {
					l.fail(j-1, "escape: UTF-8 value too large")
					j = k + 1
				} else {
					if v > 0x10FFFF {
						// valid in 5.4 (up to 2^31), invalid in 5.3: the two versions disagree -> don't-care
						l.res.DCare = true
						val = append(val, '?')
					} else {
						val = append(val, []byte(string(rune(v)))...)
					}
					j = k + 1
				}
			} else {
				l.fail(j-1, "escape: missing '{' in \\u{xxxx}")
				j++
			}
		default:
			if isDigit(e) {
				v := 0
				k := j
				for n := 0; n < 3 && k < len(s) && isDigit(s[k]); n++ {
					v = v*10 + int(s[k]-'0')
					k++
				}
				if v > 255 {
					l.fail(j-1, "escape: decimal escape too large")
				}
				val = append(val, byte(v))
				j = k
			} else {
				l.fail(j-1, "escape: invalid escape sequence")
				j++
			}
		}
	}
	if j > len(s) {
		j = len(s)
	}
	t := &Tok{K: TString, Text: string(s[off:j]), Off: off, End: j, Val: string(val), Idx: len(l.res.Toks)}
	l.res.Toks = append(l.res.Toks, t)
	l.i = j
}
