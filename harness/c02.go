package main

// C02 — the server's copy of an open document equals the client's text.
// Monitor: after every notification + fence, hook H1 `doctext` vs the R-text model.

import (
	"bytes"
	"fmt"
	"os"
	"path/filepath"
	"sort"
	"strings"
	"unicode/utf8"
)

var c02Alphabets = map[string][]string{
	"ascii":     {"a", "b", "x", "_", "1", " ", "=", "(", ")", "\"", "-", ".", "\t", ":", "obj:meth(", "t.k:m"},
	"twobyte":   {"é", "я", "ß", "ñ", "Ω", "a", " ", "="},
	"threebyte": {"中", "€", "한", "文", "x", " ", "\""},
	"astral":    {"😀", "𝔘", "🚀", "a", " ", "-"},
	"combining": {"é", "ä", "x", " "},
	"mixed":     {"a", "é", "中", "😀", " ", "=", "-", "\"", "я", "𝔘", "1", "\t", ":", "ab:cd("},
}

var c02LineEnds = map[string][]string{
	"lf":    {"\n"},
	"crlf":  {"\r\n"},
	"cr":    {"\r"},
	"mixed": {"\n", "\r\n", "\r", "\n\r"},
}

var c02Words = []string{"local", "x", "=", "function", "end", "print", "(", ")", "return", "if", "then", "t.a", "\"s\"", "--", "1", "+", "{", "}", ","}

func c02GenLine(r *Rng, alpha []string) string {
	var sb strings.Builder
	n := r.Range(0, 7)
	for i := 0; i < n; i++ {
		if r.Chance(1, 3) {
			sb.WriteString(r.Pick(c02Words))
			sb.WriteString(" ")
		} else {
			k := r.Range(1, 4)
			for j := 0; j < k; j++ {
				sb.WriteString(r.Pick(alpha))
			}
		}
	}
	return sb.String()
}

func c02GenDoc(r *Rng, alphaName, leName string) string {
	alpha := c02Alphabets[alphaName]
	les := c02LineEnds[leName]
	switch r.Intn(12) {
	case 0:
		return ""
	case 1:
		return r.Pick(les)
	case 2:
		return r.Pick(les) + r.Pick(les) + r.Pick(les)
	}
	var sb strings.Builder
	if r.Chance(1, 8) {
		sb.WriteString("\ufeff") // the document's first character is U+FEFF: for the protocol an ordinary character of line 0
	}
	n := r.Range(1, 8)
	for i := 0; i < n; i++ {
		sb.WriteString(c02GenLine(r, alpha))
		if i < n-1 || r.Bool() {
			sb.WriteString(r.Pick(les))
		}
	}
	return sb.String()
}

func c02GenInsert(r *Rng, alpha, les []string) string {
	switch r.Intn(10) {
	case 0:
		return ""
	case 1:
		return r.Pick(les)
	case 2:
		return c02GenLine(r, alpha) + r.Pick(les) + c02GenLine(r, alpha)
	case 3:
		return r.Pick(alpha)
	}
	return c02GenLine(r, alpha)
}

type c02Step struct {
	Op      string    `json:"op"`
	Doc     int       `json:"doc"`
	Changes []Change  `json:"changes,omitempty"`
	Text    string    `json:"text,omitempty"`
	Pos     *Position `json:"position,omitempty"` // op "query": Text is the request method
}

type c02History struct {
	Alpha string    `json:"alphabet"`
	LE    string    `json:"line_ends"`
	Init  []string  `json:"initial"`
	Steps []c02Step `json:"steps"`
	// the last document lives in a second workspace folder (next to the first), which the history removes from the workspace and
	// adds again (op "folder") while the document stays open
	Second bool `json:"second_folder,omitempty"`
}

// pick an addressable offset, biased towards interesting places
func c02PickOffset(r *Rng, t *RText) int {
	bs := t.Boundaries()
	switch r.Intn(8) {
	case 0:
		return bs[0]
	case 1:
		return bs[len(bs)-1]
	case 2, 3:
		// a line start or line end
		st := lineStarts(t.B)
		l := r.Intn(len(st))
		if r.Bool() {
			return st[l]
		}
		return lineContentEnd(t.B, st[l])
	}
	return bs[r.Intn(len(bs))]
}

func c02GenHistory(r *Rng) c02History {
	alphaNames := []string{"ascii", "twobyte", "threebyte", "astral", "combining", "mixed"}
	leNames := []string{"lf", "crlf", "cr", "mixed"}
	h := c02History{Alpha: alphaNames[r.Intn(len(alphaNames))], LE: leNames[r.Intn(len(leNames))]}
	ndocs := 1
	if r.Chance(1, 4) {
		ndocs = 2
	}
	alpha := c02Alphabets[h.Alpha]
	les := c02LineEnds[h.LE]
	models := make([]*RText, ndocs)
	open := make([]bool, ndocs)
	for i := 0; i < ndocs; i++ {
		d := c02GenDoc(r, h.Alpha, h.LE)
		if r.Fork(uint64(0x6d61726b+i)).Bool() {
			// half of the documents start with a global of their own (something for the outline of the file on disk)
			d = fmt.Sprintf("GC02Marker%d = 1%s", i, les[0]) + d
		}
		h.Init = append(h.Init, d)
		models[i] = NewRText(d)
		open[i] = true
	}
	nsteps := r.Range(1, 30)
	h.Second = ndocs == 2 && r.Fork(0x666f6c64).Bool()
	folderIn := true
	for s := 0; s < nsteps; s++ {
		d := r.Intn(ndocs)
		if h.Second && r.Fork(uint64(0x666f6c65+s)).Chance(1, 6) {
			folderIn = !folderIn
			h.Steps = append(h.Steps, c02Step{Op: "folder", Doc: ndocs - 1, Text: map[bool]string{true: "add", false: "remove"}[folderIn]})
			continue
		}
		if !open[d] {
			txt := c02GenDoc(r, h.Alpha, h.LE)
			h.Steps = append(h.Steps, c02Step{Op: "open", Doc: d, Text: txt})
			models[d] = NewRText(txt)
			open[d] = true
			continue
		}
		k := r.Intn(20)
		switch {
		case k == 5 || k == 6:
			// a read-only request at an addressable position of the client's text: the server's copy stays what it is
			pp := models[d].PosAt(c02PickOffset(r, models[d]))
			h.Steps = append(h.Steps, c02Step{Op: "query", Doc: d, Pos: &pp, Text: r.Pick([]string{"textDocument/hover", "textDocument/definition", "textDocument/references",
				"textDocument/documentHighlight", "textDocument/signatureHelp", "textDocument/completion", "textDocument/rename"})})
		case k == 4 && r.Fork(uint64(s)).Chance(1, 3):
			// the file of an open document is deleted on disk (watched-file event): the editor keeps editing its buffer
			h.Steps = append(h.Steps, c02Step{Op: "deleted-on-disk", Doc: d})
		case k == 3 && r.Fork(uint64(s)).Chance(1, 3):
			// a settings change while documents are open: the server re-reads the workspace, the open documents keep
			// their editor text
			h.Steps = append(h.Steps, c02Step{Op: "config", Doc: d})
		case k == 0:
			h.Steps = append(h.Steps, c02Step{Op: "close", Doc: d})
			open[d] = false
		case k == 1:
			txt := c02GenDoc(r, h.Alpha, h.LE)
			h.Steps = append(h.Steps, c02Step{Op: "full", Doc: d, Text: txt})
			models[d] = NewRText(txt)
		case k == 2:
			// save with the current text (a client saves what it holds)
			h.Steps = append(h.Steps, c02Step{Op: "save", Doc: d, Text: models[d].String()})
		default:
			nch := 1
			if r.Chance(1, 4) {
				nch = r.Range(2, 4)
			}
			var chs []Change
			for j := 0; j < nch; j++ {
				t := models[d]
				if r.Chance(1, 25) {
					txt := c02GenDoc(r, h.Alpha, h.LE)
					chs = append(chs, Change{Text: txt})
					t.B = []byte(txt)
					continue
				}
				a := c02PickOffset(r, t)
				b := a
				switch r.Intn(6) {
				case 0, 1: // pure insert
				case 2: // to end of document
					b = len(t.B)
				case 3: // delete everything
					a, b = 0, len(t.B)
				default:
					b = c02PickOffset(r, t)
					if b < a {
						a, b = b, a
					}
					if b-a > 40 && r.Bool() {
						// prefer short ranges; snap b to a boundary near a
						bs := t.Boundaries()
						i := sort.SearchInts(bs, a)
						j := i + r.Range(0, 6)
						if j >= len(bs) {
							j = len(bs) - 1
						}
						b = bs[j]
					}
				}
				// a position between CR and LF is not addressable
				if a > 0 && a < len(t.B) && t.B[a-1] == '\r' && t.B[a] == '\n' {
					a--
				}
				if b > 0 && b < len(t.B) && t.B[b-1] == '\r' && t.B[b] == '\n' {
					b++
				}
				rg := Range{t.PosAt(a), t.PosAt(b)}
				ins := c02GenInsert(r, alpha, les)
				ch := Change{Range: &rg, Text: ins}
				if r.Bool() {
					n := utf16Len(t.B[a:b])
					ch.RangeLength = &n
				}
				if !t.Splice(rg, ins) {
					panic(fmt.Sprintf("harness: model cannot apply its own edit %v on %q", rg, t.B))
				}
				chs = append(chs, ch)
			}
			h.Steps = append(h.Steps, c02Step{Op: "change", Doc: d, Changes: chs})
		}
	}
	return h
}

// c02Features classifies the text before an edit for the violation signature.
func c02Features(before []byte, chs []Change) string {
	feats := map[string]bool{}
	t := &RText{B: append([]byte(nil), before...)}
	for _, ch := range chs {
		if ch.Range == nil {
			t.B = []byte(ch.Text)
			continue
		}
		for _, p := range []Position{ch.Range.Start, ch.Range.End} {
			off, ok := t.Offset(p)
			if !ok {
				continue
			}
			st := lineStarts(t.B)
			ls := st[p.Line]
			for i := ls; i < off; {
				r, sz := utf8.DecodeRune(t.B[i:])
				if r >= 0x10000 {
					feats["astral-before-on-line"] = true
				}
				i += sz
			}
			for i := 0; i < off; i++ {
				if t.B[i] == '\r' && (i+1 >= len(t.B) || t.B[i+1] != '\n') {
					feats["lone-CR-before"] = true
				}
			}
			if off == len(t.B) {
				feats["at-document-end"] = true
			}
		}
		t.Splice(*ch.Range, ch.Text)
	}
	var fs []string
	for f := range feats {
		if f != "at-document-end" || len(feats) == 1 {
			fs = append(fs, f)
		}
	}
	if len(fs) == 0 {
		return "plain"
	}
	sort.Strings(fs)
	return strings.Join(fs, "+")
}

func runC02(c *Ctx) {
	nHist := c.N(2500, 40000)
	workers := 12
	root := NewRng(c.Seed).Fork(2)
	hists := make([]c02History, nHist)
	for i := range hists {
		hists[i] = c02GenHistory(root.Fork(uint64(i)))
	}
	per := (nHist + workers - 1) / workers
	parallel(workers, workers, func(w int) {
		lo, hi := w*per, (w+1)*per
		if hi > nHist {
			hi = nHist
		}
		if lo >= hi {
			return
		}
		ws := c.NewWorkspace(map[string]string{"seed.lua": "local a = 1\nreturn a\n"})
		defer ws.Remove()
		var srv *Server
		start := func() bool {
			var err error
			os.MkdirAll(filepath.Join(filepath.Dir(ws.Root), "second"), 0o755)
			srv, err = StartServer(ServerOpts{Root: ws.Root, Folders: []string{ws.Root, filepath.Join(filepath.Dir(ws.Root), "second")}, Tag: fmt.Sprintf("c02w%d", w)})
			if err != nil {
				c.Inconclusive("cannot start server: " + err.Error())
				return false
			}
			return true
		}
		if !start() {
			return
		}
		defer func() { srv.Close() }()
		for hi2 := lo; hi2 < hi; hi2++ {
			h := hists[hi2]
			c.Eval(1)
			ok := c02RunHistory(c, srv, ws, hi2, h)
			if !ok {
				// server died or hook failed: restart for the next history
				srv.Close()
				if !start() {
					return
				}
			}
		}
	})
	c.Finish("histories of didOpen/didChange(range, multi-change, full)/didSave/didClose over 6 alphabets x 4 line-ending styles, "+
		"edits chosen on the R-text model at addressable positions; after every step the server's cached bytes (hook H1, read under requestMutex) "+
		"are compared with the model. distinct_nontrivial = distinct (document text after a change step) states compared", 50)
}

func c02RunHistory(c *Ctx, srv *Server, ws *Workspace, idx int, h c02History) bool {
	n := len(h.Init)
	models := make([]*RText, n)
	open := make([]bool, n)
	uris := make([]string, n)
	version := 1
	relOf := func(i int) string {
		if h.Second && i == n-1 {
			return fmt.Sprintf("../second/h%d_d%d.lua", idx, i)
		}
		return fmt.Sprintf("h%d_d%d.lua", idx, i)
	}
	secondURI := fileURI(filepath.Join(filepath.Dir(ws.Root), "second"))
	folderIn := true
	folderEvent := func(add bool) {
		f := []interface{}{map[string]interface{}{"uri": secondURI, "name": "second"}}
		ev := map[string]interface{}{"added": []interface{}{}, "removed": []interface{}{}}
		if add {
			ev["added"] = f
		} else {
			ev["removed"] = f
		}
		srv.Notify("workspace/didChangeWorkspaceFolders", map[string]interface{}{"event": ev})
		folderIn = add
	}
	for i := 0; i < n; i++ {
		rel := relOf(i)
		ws.Write(rel, h.Init[i])
		uris[i] = ws.URI(rel)
		models[i] = NewRText(h.Init[i])
		open[i] = true
		srv.DidOpen(uris[i], h.Init[i])
	}
	defer func() {
		for i := 0; i < n; i++ {
			if open[i] {
				srv.DidClose(uris[i])
			}
			ws.Delete(relOf(i))
		}
		if !folderIn {
			folderEvent(true) // the next history finds both folders in the workspace
		}
	}()
	check := func(step int, before [][]byte) bool {
		if err := srv.Fence(); err != nil {
			c.Inconclusive(fmt.Sprintf("server not answering during history %d step %d: %v; stderr: %s", idx, step, err, truncate(srv.StderrHead(600), 600)))
			return false
		}
		for i := 0; i < n; i++ {
			got, found, err := srv.DocText(uris[i])
			if err != nil {
				c.Inconclusive(fmt.Sprintf("hook H1 failed: %v", err))
				return false
			}
			c.Count("states_compared", 1)
			if found != open[i] {
				c.Report("open-state-mismatch", fmt.Sprintf("document open=%v on the client but found=%v in the server cache", open[i], found),
					map[string]interface{}{"history": h, "step": step, "doc": i})
				return true
			}
			if !found {
				continue
			}
			if !bytes.Equal(got, models[i].B) {
				sig := "text-mismatch|plain"
				if step >= 0 && h.Steps[step].Op == "change" && h.Steps[step].Doc == i {
					sig = "text-mismatch|" + c02Features(before[i], h.Steps[step].Changes)
				} else if step >= 0 {
					sig = "text-mismatch|after-" + h.Steps[step].Op
				}
				c.Report(sig, fmt.Sprintf("server text %q differs from client text %q after step %d", truncate(string(got), 200), truncate(models[i].String(), 200), step),
					map[string]interface{}{"history": h, "step": step, "doc": i, "server_text": string(got), "client_text": models[i].String()})
				// resynchronise by full replacement so later steps stay meaningful
				version++
				srv.DidChangeFull(uris[i], version, models[i].String())
				continue
			}
			// what is analysed is the text held: a document the client has just emptied has no symbols (the file below it on disk,
			// which starts with a global of its own, has)
			if len(models[i].B) == 0 && step >= 0 && h.Steps[step].Doc == i && (h.Steps[step].Op == "change" || h.Steps[step].Op == "full") {
				syms, _, err := srv.DocumentSymbol(uris[i])
				if err != nil {
					c.Inconclusive(fmt.Sprintf("server not answering during history %d step %d: %v", idx, step, err))
					return false
				}
				c.Count("emptied_documents_outlined", 1)
				if len(syms) > 0 {
					kind := "by-range-edit"
					if h.Steps[step].Op == "full" || h.Steps[step].Changes[len(h.Steps[step].Changes)-1].Range == nil {
						kind = "by-full-text"
					}
					c.Report("analysis-reads-other-text|emptied-document|"+kind, fmt.Sprintf("the client emptied the document at step %d, the server's copy is empty too, but its outline still lists %d symbols (first: %s)", step, len(syms), syms[0].Name),
						map[string]interface{}{"history": h, "step": step, "doc": i})
				}
			}
		}
		return true
	}
	if !check(-1, nil) {
		return false
	}
	for si, st := range h.Steps {
		before := make([][]byte, n)
		for i := range models {
			before[i] = append([]byte(nil), models[i].B...)
		}
		d := st.Doc
		switch st.Op {
		case "open":
			ws.Write(relOf(d), st.Text)
			models[d] = NewRText(st.Text)
			open[d] = true
			srv.DidOpen(uris[d], st.Text)
			c.Count("op_open", 1)
		case "close":
			open[d] = false
			srv.DidClose(uris[d])
			c.Count("op_close", 1)
		case "full":
			version++
			models[d] = NewRText(st.Text)
			srv.DidChangeFull(uris[d], version, st.Text)
			c.Count("op_full", 1)
		case "save":
			// what the editor writes to disk is the text in the file's encoding: one save in four writes a UTF-8 byte order
			// mark first (the notification carries the text itself, as always)
			disk := st.Text
			if (idx+si)%4 == 0 {
				disk = "\xef\xbb\xbf" + disk
				c.Count("op_save_with_byte_order_mark_on_disk", 1)
			}
			ws.Write(relOf(d), disk)
			srv.DidSave(uris[d], st.Text)
			c.Count("op_save", 1)
		case "query":
			params := tdPos(uris[d], st.Pos.Line, st.Pos.Character)
			switch st.Text {
			case "textDocument/references":
				params["context"] = map[string]interface{}{"includeDeclaration": true}
			case "textDocument/rename":
				params["newName"] = "renamedByQuery"
			case "textDocument/completion":
				params["context"] = map[string]interface{}{"triggerKind": 1}
			}
			if _, err := srv.Request(st.Text, params); err != nil {
				c.Inconclusive("server stopped answering during a C02 history (C01's business)")
				return false
			}
			c.Count("op_query", 1)
		case "deleted-on-disk":
			rel := relOf(d)
			ws.Delete(rel)
			srv.Notify("workspace/didChangeWatchedFiles", map[string]interface{}{"changes": []interface{}{map[string]interface{}{"uri": uris[d], "type": 3}}})
			c.Count("op_deleted_on_disk", 1)
		case "config":
			// every notification differs from the one before (one check flag alternates), so the server acts on it
			w := map[string]interface{}{}
			for i, kk := range checkFlagNames {
				w[kk] = !(i == 4 && (idx+si)%2 == 1)
			}
			srv.Notify("workspace/didChangeConfiguration", map[string]interface{}{"settings": map[string]interface{}{"luahelper": map[string]interface{}{"Warn": w, "base": map[string]interface{}{}}}})
			c.Count("op_config", 1)
		case "folder":
			folderEvent(st.Text == "add")
			c.Count("op_folder_"+st.Text, 1)
		case "change":
			version++
			for _, ch := range st.Changes {
				if ch.Range == nil {
					models[d].B = []byte(ch.Text)
				} else {
					models[d].Splice(*ch.Range, ch.Text)
				}
				c.Count("range_edits", 1)
			}
			srv.DidChange(uris[d], version, st.Changes)
			c.Count("op_change", 1)
			c.Distinct(models[d].String())
		}
		if !check(si, before) {
			return false
		}
	}
	if idx < 3 {
		c.Sample(h)
	}
	return true
}
