package main

// C08 — after any edit/file-event history, diagnostics (and query answers) equal those of a fresh start.
// Differential monitor: at every quiescent point (no document with unsaved edits) a fresh server is
// started on the current directory and its client view / probe answers are compared with the live one.
// While a buffer is dirty its file must show the buffer's syntax errors, else its last saved
// non-syntax diagnostics.

import (
	"fmt"
	"regexp"
	"sort"
	"strings"
	"time"
)

type c08Event struct {
	Op      string `json:"op"` // create change delete open edit save close batch
	File    string `json:"file,omitempty"`
	Variant string `json:"variant,omitempty"`
	Text    string `json:"text,omitempty"`
	Batch   []c08Event `json:"batch,omitempty"`
}

var c08VariantNames = []string{"clean", "syntax", "unused", "undefined", "defglobal", "useglobal", "require", "requiremissing", "annoclass", "useannoclass", "dupkey", "empty", "undefinedB", "requiremissingB", "useglobalB", "dofile", "annoclassdup", "annoclassdup", "annomixed", "usefilenameglobal", "undefinedCase", "syntaxB"}

// twins: variants that differ from each other in one letter of a name only (same length; undefinedCase differs from
// undefined in the case of one letter). A change from a variant to its twin keeps type and range of every diagnostic.
var c08Twins = map[string][]string{
	"undefined": {"undefinedB", "undefinedCase"}, "undefinedB": {"undefined", "undefinedCase"}, "undefinedCase": {"undefined", "undefinedB"},
	"requiremissing": {"requiremissingB"}, "requiremissingB": {"requiremissing"},
	"useglobal": {"useglobalB"}, "useglobalB": {"useglobal"},
	"syntax": {"syntaxB"}, "syntaxB": {"syntax"}, // (two different syntax errors: a buffer and the file below it can both be broken)
}

// c08Next draws the next content variant of a file: one time in three the twin of the current one, if it has one.
func c08Next(r *Rng, cur string) string {
	if tw := c08Twins[cur]; len(tw) > 0 && r.Chance(1, 3) {
		return tw[r.Intn(len(tw))]
	}
	return r.Pick(c08VariantNames)
}

// c08Variant renders content variant v for file index i of n files.
func c08Variant(v string, i, n int, layout string) string {
	nxt := (i + 1) % n
	switch v {
	case "clean":
		return fmt.Sprintf("local a%d = %d\nlocal function f%d(x)\n  return x + a%d\nend\nprint(f%d(1))\n", i, i, i, i, i)
	case "syntax":
		return fmt.Sprintf("local a%d = %d\nlocal function f%d(x\n  return x + a%d\nend\nprint(f%d(1))\n", i, i, i, i, i)
	case "syntaxB":
		return fmt.Sprintf("local a%d = %d\nlocal function f%d(x)\n  return x + + a%d\nend\nprint(f%d(1)\n", i, i, i, i, i)
	case "unused":
		return fmt.Sprintf("local a%d = %d\nlocal unused%d = 2\nprint(a%d)\n", i, i, i, i)
	case "undefined":
		return fmt.Sprintf("local a%d = %d\nprint(a%d, nowhereDefined%d)\n", i, i, i, i)
	case "defglobal":
		return fmt.Sprintf("GShared%d = { value = %d }\nfunction GFunc%d(p, q)\n  return p\nend\n", i, i, i)
	case "useglobal":
		return fmt.Sprintf("local a%d = GShared%d\nprint(a%d, GFunc%d(1, 2, 3))\n", i, nxt, i, nxt)
	case "require":
		return fmt.Sprintf("local m%d = require(\"%s\")\nprint(m%d)\n", i, c08Module(layout, nxt, i%2 == 1), i)
	case "dofile":
		// a reference with a file suffix, resolved through the file-exists cache
		return fmt.Sprintf("dofile(\"%s\")\nprint(%d)\n", c08RelL(layout, nxt), i)
	case "requiremissing":
		return fmt.Sprintf("local m%d = require(\"nomod%d\")\nprint(m%d)\n", i, i, i)
	case "annoclass":
		return fmt.Sprintf("---@class Cls%d\n---@field fa%d number\nlocal Cls%d = {}\nreturn Cls%d\n", i, i, i, i)
	case "annoclassdup":
		// the same class name in every file that carries this variant: two such files at once make a duplicate type
		return fmt.Sprintf("---@class ClsShared\n---@field fs%d number\nlocal ClsShared%d = {}\nreturn ClsShared%d\n", i, i, i)
	case "usefilenameglobal":
		// a global named like the next file (its base name): with the option IgnoreFileNameVarFlag of luahelper.json it is
		// not reported as undefined as long as that file exists
		base := strings.TrimSuffix(c08RelL(layout, nxt), ".lua")
		if k := strings.LastIndex(base, "/"); k >= 0 {
			base = base[k+1:]
		}
		return fmt.Sprintf("local a%d = %d\nprint(a%d, %s.count)\n", i, i, i, base)
	case "annomixed":
		// a type warning (unknown annotation type) followed, further down, by a malformed annotation line
		return fmt.Sprintf("---@class Mix%d\n---@field owner NoSuchType%d\nlocal Mix%d = {}\n---@param amount\nfunction Mix%d.f(amount)\n  return amount\nend\nreturn Mix%d\n", i, i, i, i, i)
	case "useannoclass":
		return fmt.Sprintf("---@type Cls%d\nlocal v%d = {}\nprint(v%d.fa%d, v%d.nofield%d)\n", nxt, i, i, nxt, i, i)
	case "dupkey":
		return fmt.Sprintf("local t%d = { k = 1, k = 2 }\nprint(t%d == t%d)\n", i, i, i)
	// the B variants differ from their twins only in a name of the same length: the diagnostics keep type and range and
	// change their message only
	case "undefinedCase":
		return fmt.Sprintf("local a%d = %d\nprint(a%d, NowhereDefined%d)\n", i, i, i, i)
	case "undefinedB":
		return fmt.Sprintf("local a%d = %d\nprint(a%d, nowhereDefinex%d)\n", i, i, i, i)
	case "requiremissingB":
		return fmt.Sprintf("local m%d = require(\"nomox%d\")\nprint(m%d)\n", i, i, i)
	case "useglobalB":
		return fmt.Sprintf("local a%d = GSharex%d\nprint(a%d, GFunc%d(1, 2, 3))\n", i, nxt, i, nxt)
	case "empty":
		return "" // a file of zero bytes
	}
	return ""
}

// layouts: "flat" = mod<i>.lua in the root; "dup" = files in three directories that share base names
// (a/mod0.lua, b/mod0.lua, c/d/mod0.lua, a/mod1.lua, ...), so that a module string can have several candidates.
var c08DupDirs = []string{"a", "b", "c/d"}

func c08RelL(layout string, i int) string {
	if layout == "dup" {
		return fmt.Sprintf("%s/mod%d.lua", c08DupDirs[i%3], i/3)
	}
	return fmt.Sprintf("mod%d.lua", i)
}

func c08IdxL(layout, rel string) int {
	if layout == "dup" {
		for k, d := range c08DupDirs {
			if strings.HasPrefix(rel, d+"/mod") {
				var j int
				fmt.Sscanf(strings.TrimPrefix(rel, d+"/"), "mod%d.lua", &j)
				return j*3 + k
			}
		}
	}
	var i int
	fmt.Sscanf(rel, "mod%d.lua", &i)
	return i
}

// c08Module is the module string a file uses to require file i (qualified: with its directory).
func c08Module(layout string, i int, qualified bool) string {
	if layout == "dup" {
		if qualified {
			return strings.ReplaceAll(c08DupDirs[i%3], "/", ".") + fmt.Sprintf(".mod%d", i/3)
		}
		return fmt.Sprintf("mod%d", i/3)
	}
	return fmt.Sprintf("mod%d", i)
}

type c08History struct {
	N      int               `json:"files"`
	Layout string            `json:"layout"`
	JSON   string            `json:"luahelper_json,omitempty"` // content of a luahelper.json in the workspace ("" = none)
	Init   map[string]string `json:"initial_variants"`
	Events []c08Event        `json:"events"`
}

func c08Gen(r *Rng, maxEvents int) c08History {
	n := r.Range(3, 6)
	h := c08History{N: n, Init: map[string]string{}, Layout: "flat"}
	if r.Chance(1, 3) {
		h.Layout = "dup"
	}
	if r.Fork(0x6a736f6e).Chance(1, 4) {
		h.JSON = `{"IgnoreFileNameVarFlag":1}`
	}
	c08Rel := func(i int) string { return c08RelL(h.Layout, i) }
	// sparse histories: most files are clean most of the time, so that single events take the workspace to and from the state
	// in which no file has any diagnostic, and unsaved edits are mostly syntax errors
	sparse := r.Fork(0x73706172).Chance(1, 4)
	pick := func() string {
		if sparse {
			switch k := r.Intn(20); {
			case k < 11:
				return "clean"
			case k < 14:
				return "defglobal"
			default:
				return r.Pick([]string{"require", "useglobal", "requiremissing", "dofile", "undefined", "usefilenameglobal", "useannoclass", "annoclass"})
			}
		}
		return r.Pick(c08VariantNames)
	}
	next := func(cur string, edit bool) string {
		if sparse {
			if edit && r.Bool() {
				return r.Pick([]string{"syntax", "syntaxB"})
			}
			return pick()
		}
		return c08Next(r, cur)
	}
	exists := map[int]bool{}
	open := map[int]bool{}
	dirty := map[int]bool{}
	onDisk := map[int]string{} // variant currently on disk
	bufVar := map[int]string{} // variant of the last unsaved edit
	for i := 0; i < n; i++ {
		if r.Chance(4, 5) {
			h.Init[c08Rel(i)] = pick()
			onDisk[i] = h.Init[c08Rel(i)]
			exists[i] = true
		}
	}
	ne := r.Range(5, maxEvents)
	if rd := r.Fork(0x64697265); rd.Chance(1, 8) {
		// directed opening: the only saved diagnostic of the whole workspace belongs to a file that is being edited into a syntax
		// error, and an event on another file then removes that diagnostic (the workspace becomes free of saved diagnostics while
		// a buffer is broken); the random events continue from there
		sparse = true
		h.Layout = "flat"
		h.Init = map[string]string{}
		for i := 0; i < n; i++ {
			exists[i], onDisk[i] = false, ""
		}
		user := rd.Pick([]string{"require", "dofile"})
		h.Init[c08Rel(0)], onDisk[0], exists[0] = user, user, true
		for i := 2; i < n; i++ {
			if rd.Bool() {
				h.Init[c08Rel(i)], onDisk[i], exists[i] = "clean", "clean", true
			}
		}
		open[0], dirty[0], bufVar[0] = true, true, rd.Pick([]string{"syntax", "syntaxB"})
		h.Events = append(h.Events, c08Event{Op: "open", File: c08Rel(0)}, c08Event{Op: "edit", File: c08Rel(0), Variant: bufVar[0]})
		exists[1], onDisk[1] = true, rd.Pick([]string{"clean", "defglobal"})
		h.Events = append(h.Events, c08Event{Op: "create", File: c08Rel(1), Variant: onDisk[1]})
		if rd.Bool() {
			// ... and back: the required file disappears again
			exists[1] = false
			h.Events = append(h.Events, c08Event{Op: "delete", File: c08Rel(1)})
		}
		ne += len(h.Events)
	}
	var gen func(allowBatch bool) (c08Event, bool)
	gen = func(allowBatch bool) (c08Event, bool) {
		i := r.Intn(n)
		rel := c08Rel(i)
		switch k := r.Intn(14); {
		case k == 0:
			if !exists[i] {
				if r.Chance(1, 4) {
					return c08Event{Op: "blip", File: rel}, true // reported created and deleted: it never exists afterwards
				}
				exists[i] = true
				onDisk[i] = pick()
				return c08Event{Op: "create", File: rel, Variant: onDisk[i]}, true
			}
		case k <= 2:
			// external change of a file that is not open, or open and dirty (an open clean document would be reloaded by the editor)
			if exists[i] && (!open[i] || dirty[i]) {
				if !r.Chance(1, 4) { // one in four is a touch: announced as changed, bytes identical
					onDisk[i] = next(onDisk[i], false)
				}
				if !open[i] && r.Chance(1, 5) {
					return c08Event{Op: "replace", File: rel, Variant: onDisk[i]}, true
				}
				return c08Event{Op: "change", File: rel, Variant: onDisk[i]}, true
			}
		case k == 3:
			if exists[i] && !open[i] {
				exists[i] = false
				return c08Event{Op: "delete", File: rel}, true
			}
		case k <= 5:
			if exists[i] && !open[i] {
				open[i] = true
				return c08Event{Op: "open", File: rel}, true
			}
		case k <= 9:
			if open[i] {
				cur := onDisk[i]
				if dirty[i] {
					cur = bufVar[i]
				}
				dirty[i] = true
				bufVar[i] = next(cur, true)
				return c08Event{Op: "edit", File: rel, Variant: bufVar[i]}, true
			}
		case k <= 11:
			if open[i] && dirty[i] {
				dirty[i] = false
				onDisk[i] = bufVar[i]
				return c08Event{Op: "save", File: rel}, true
			}
		case k == 12:
			if open[i] {
				open[i] = false
				dirty[i] = false // closing discards unsaved edits
				return c08Event{Op: "close", File: rel}, true
			}
		default:
			if allowBatch {
				var bb, touches []c08Event
				onlyChanges := r.Bool() // half of the batches consist of `changed` events only (the selective re-analysis path)
				for _, ii := range r.Perm(n)[:r.Range(2, min(4, n))] {
					rl := c08Rel(ii)
					if !exists[ii] {
						if onlyChanges {
							continue
						}
						exists[ii] = true
						onDisk[ii] = pick()
						bb = append(bb, c08Event{Op: "create", File: rl, Variant: onDisk[ii]})
					} else if !open[ii] {
						if !onlyChanges && r.Bool() {
							exists[ii] = false
							bb = append(bb, c08Event{Op: "delete", File: rl})
						} else if r.Chance(1, 3) {
							touches = append(touches, c08Event{Op: "change", File: rl, Variant: onDisk[ii]}) // a touch: identical bytes
						} else {
							onDisk[ii] = next(onDisk[ii], false)
							bb = append(bb, c08Event{Op: "change", File: rl, Variant: onDisk[ii]})
						}
					}
				}
				bb = append(bb, touches...) // touched files last: their (unchanged) result tends to come back last
				if len(bb) >= 2 {
					return c08Event{Op: "batch", Batch: bb}, true
				}
				if len(bb) == 1 {
					return bb[0], true
				}
			}
		}
		return c08Event{}, false
	}
	for len(h.Events) < ne {
		if e, ok := gen(true); ok {
			h.Events = append(h.Events, e)
		}
	}
	// end quiescent: save or close every dirty document
	for i := 0; i < n; i++ {
		if dirty[i] {
			onDisk[i] = bufVar[i]
			h.Events = append(h.Events, c08Event{Op: "save", File: c08Rel(i)})
			dirty[i] = false
		}
	}
	return h
}

func c08ViewKeys(ws *Workspace, view map[string][]Diag) map[string][]string {
	out := map[string][]string{}
	for u, ds := range view {
		rel := ws.Rel(u)
		for _, d := range ds {
			k := d.Key()
			k = strings.ReplaceAll(k, ws.Root, "$ROOT")
			out[rel] = append(out[rel], k)
		}
		sort.Strings(out[rel])
	}
	return out
}

func c08Probe(srv *Server, ws *Workspace, rel, text string) []string {
	var out []string
	uri := ws.URI(rel)
	lx := RLex([]byte(text))
	n := 0
	for _, t := range lx.Toks {
		if t.K != TName || n >= 3 {
			continue
		}
		n++
		p := posAt([]byte(text), t.Off)
		locs, _, err := srv.Definition(uri, p.Line, p.Character)
		if err != nil {
			return append(out, "dead")
		}
		out = append(out, "def:"+t.Val+":"+fmtLocs(ws, locs))
		hv, _, err := srv.Hover(uri, p.Line, p.Character)
		if err != nil {
			return append(out, "dead")
		}
		if hv != nil {
			out = append(out, "hover:"+t.Val+":"+strings.ReplaceAll(hv.Contents.Value, ws.Root, "$ROOT"))
		} else {
			out = append(out, "hover:"+t.Val+":nil")
		}
	}
	syms, _, err := srv.DocumentSymbol(uri)
	if err != nil {
		return append(out, "dead")
	}
	var ss []string
	for _, s := range syms {
		ss = append(ss, fmt.Sprintf("%s@%s", s.Name, s.Range))
	}
	sort.Strings(ss)
	out = append(out, "symbols:"+strings.Join(ss, ","))
	return out
}

func runC08(c *Ctx) {
	nHist := c.N(250, 5000)
	maxEv := c.N(22, 40)
	root := NewRng(c.Seed).Fork(8)
	parallel(nHist, 12, func(hi int) {
		r := root.Fork(uint64(hi))
		h := c08Gen(r, maxEv)
		c.Eval(1)
		c08Run(c, h, fmt.Sprintf("c08h%d", hi))
		if hi < 2 {
			c.Sample(h)
		}
	})
	c.Finish("histories of 5-40 events (create/external change/delete with watched-file notifications, open, unsaved edit, save, close, batches) over 3-6 files whose content "+
		"switches between 16 variants (dofile of another file by path, empty file, three pairs of twins whose diagnostics differ in the message only, clean, syntax error, unused local, undefined name, defines/uses a cross-file global, requires an existing/missing module, annotation "+
		"class defined/used, duplicate key); at every quiescent point the live client view and probe answers are compared with a fresh server on the same directory; while a "+
		"buffer is dirty its file's view is compared with the buffer's own syntax errors. distinct_nontrivial = distinct (history prefix) states compared with a fresh server", 40)
}

func c08Run(c *Ctx, h c08History, tag string) {
	files := map[string]string{}
	for rel, v := range h.Init {
		files[rel] = c08Variant(v, c08IdxL(h.Layout, rel), h.N, h.Layout)
	}
	if h.JSON != "" {
		files["luahelper.json"] = h.JSON
		c.Count("histories_with_luahelper_json", 1)
	}
	ws := c.NewWorkspace(files)
	defer ws.Remove()
	srv, err := StartServer(ServerOpts{Root: ws.Root, Tag: tag})
	if err != nil {
		c.Inconclusive("live server failed to start: " + err.Error())
		if srv != nil {
			srv.Close()
		}
		return
	}
	defer srv.Close()
	// the first configuration notification is ignored by design; send it like an editor does
	srv.Notify("workspace/didChangeConfiguration", map[string]interface{}{"settings": map[string]interface{}{}})
	buffers := map[string]string{} // open documents: client text
	dirty := map[string]bool{}
	extSinceEdit := map[string]bool{} // an external change hit the file while it had unsaved edits
	ver := 1
	idx := func(rel string) int { return c08IdxL(h.Layout, rel) }
	fresh := func(extra map[string]string, openRels []string) (map[string][]string, map[string][]string, bool) {
		cur := ws.Snapshot()
		for k, v := range extra {
			cur[k] = v
		}
		fws := c.NewWorkspace(cur)
		defer fws.Remove()
		fs, err := StartServer(ServerOpts{Root: fws.Root, Tag: tag + "f"})
		if err != nil {
			if fs != nil {
				fs.Close()
			}
			return nil, nil, false
		}
		defer fs.Close()
		view := c08ViewKeys(fws, fs.View())
		probes := map[string][]string{}
		for _, rel := range openRels {
			fs.DidOpen(fws.URI(rel), cur[rel])
		}
		if len(openRels) > 0 {
			if fs.Fence() != nil {
				return nil, nil, false
			}
			// opening must not change the view of a fresh server either
			view = c08ViewKeys(fws, fs.View())
			for _, rel := range openRels {
				probes[rel] = c08Probe(fs, fws, rel, cur[rel])
			}
		}
		return view, probes, true
	}
	applyFS := func(e c08Event) []interface{} {
		_, onDisk := ws.Files[e.File]
		if (e.Op == "create" || e.Op == "blip") == onDisk {
			panic(fmt.Sprintf("harness: non-conformant file event %s on %s (exists=%v) in %+v", e.Op, e.File, onDisk, h))
		}
		if dirty[e.File] {
			extSinceEdit[e.File] = true
		}
		switch e.Op {
		case "create":
			ws.Write(e.File, c08Variant(e.Variant, idx(e.File), h.N, h.Layout))
			return []interface{}{map[string]interface{}{"uri": ws.URI(e.File), "type": 1}}
		case "change":
			ws.Write(e.File, c08Variant(e.Variant, idx(e.File), h.N, h.Layout))
			return []interface{}{map[string]interface{}{"uri": ws.URI(e.File), "type": 2}}
		case "delete":
			ws.Delete(e.File)
			return []interface{}{map[string]interface{}{"uri": ws.URI(e.File), "type": 3}}
		case "replace":
			// an atomic replace (write to a temporary name, rename over): one notification reports the path deleted, then created
			ws.Write(e.File, c08Variant(e.Variant, idx(e.File), h.N, h.Layout))
			return []interface{}{map[string]interface{}{"uri": ws.URI(e.File), "type": 3}, map[string]interface{}{"uri": ws.URI(e.File), "type": 1}}
		case "blip":
			// a short-lived file: created and deleted again before the notification goes out
			return []interface{}{map[string]interface{}{"uri": ws.URI(e.File), "type": 1}, map[string]interface{}{"uri": ws.URI(e.File), "type": 3}}
		}
		return nil
	}
	for ei, e := range h.Events {
		c.Count("events", 1)
		c.Count("event_"+e.Op, 1)
		switch e.Op {
		case "create", "change", "delete", "replace", "blip":
			srv.Notify("workspace/didChangeWatchedFiles", map[string]interface{}{"changes": applyFS(e)})
		case "batch":
			var chs []interface{}
			for _, b := range e.Batch {
				chs = append(chs, applyFS(b)...)
			}
			srv.Notify("workspace/didChangeWatchedFiles", map[string]interface{}{"changes": chs})
		case "open":
			buffers[e.File] = ws.Files[e.File]
			srv.DidOpen(ws.URI(e.File), buffers[e.File])
		case "edit":
			ver++
			buffers[e.File] = c08Variant(e.Variant, idx(e.File), h.N, h.Layout)
			dirty[e.File] = true // a didChange without didSave: the server cannot know the text equals the disk
			extSinceEdit[e.File] = false
			srv.DidChangeFull(ws.URI(e.File), ver, buffers[e.File])
		case "save":
			ws.Write(e.File, buffers[e.File])
			dirty[e.File] = false
			srv.DidSave(ws.URI(e.File), buffers[e.File])
			// the editor's file watcher reports the write as well
			srv.Notify("workspace/didChangeWatchedFiles", map[string]interface{}{"changes": []interface{}{map[string]interface{}{"uri": ws.URI(e.File), "type": 2}}})
		case "close":
			delete(buffers, e.File)
			delete(dirty, e.File)
			srv.DidClose(ws.URI(e.File))
		}
		if err := srv.Fence(); err != nil {
			srv.WaitDeath(5 * time.Second)
			c.Inconclusive(fmt.Sprintf("live server died during a history (C01's business): %v; stderr %s", err, truncate(srv.StderrHead(400), 400)))
			return
		}
		live := c08ViewKeys(ws, srv.View())
		anyDirty := false
		var openRels []string
		for rel := range buffers {
			openRels = append(openRels, rel)
			if dirty[rel] {
				anyDirty = true
			}
		}
		sort.Strings(openRels)
		witness := func(extra map[string]interface{}) interface{} {
			m := map[string]interface{}{"history": h, "after_event": ei, "live_view": live, "disk": ws.Snapshot()}
			for k, v := range extra {
				m[k] = v
			}
			return m
		}
		if anyDirty {
			// dirty clause: per dirty file, type-1 diagnostics of the buffer if any, else last saved non-syntax diagnostics
			for _, rel := range openRels {
				if !dirty[rel] {
					continue
				}
				fv, _, ok := fresh(map[string]string{rel: buffers[rel]}, nil)
				if !ok {
					c.Inconclusive("scratch fresh server failed")
					return
				}
				c.Count("dirty_buffer_comparisons", 1)
				var want []string
				for _, k := range fv[rel] {
					if strings.Contains(k, "[Warn type:1],") {
						want = append(want, k)
					}
				}
				if len(want) == 0 {
					// the saved state of the file is what is on disk now (it may have changed externally meanwhile)
					dv, _, ok := fresh(nil, nil)
					if !ok {
						c.Inconclusive("scratch fresh server failed")
						return
					}
					for _, k := range dv[rel] {
						if !strings.Contains(k, "[Warn type:1],") {
							want = append(want, k)
						}
					}
				}
				sort.Strings(want)
				if strings.Join(want, "\n") != strings.Join(live[rel], "\n") {
					kind := "syntax-errors-of-buffer"
					if len(want) == 0 || !strings.Contains(want[0], "type:1]") {
						kind = "last-saved-non-syntax"
					}
					if extSinceEdit[rel] {
						kind += "|external-change-while-dirty"
					}
					c.Report(fmt.Sprintf("dirty-view-mismatch|%s", kind),
						fmt.Sprintf("while %s has unsaved edits its view is %v, expected %v", rel, live[rel], want), witness(map[string]interface{}{"file": rel, "expected": want}))
				}
			}
			continue
		}
		// quiescent point
		fv, fprobes, ok := fresh(nil, openRels)
		if !ok {
			c.Inconclusive("fresh server failed at a quiescent point")
			return
		}
		c.Count("quiescent_comparisons", 1)
		c.Distinct(fmt.Sprint(h.Init, h.Events[:ei+1]))
		rels := map[string]bool{}
		for k := range fv {
			rels[k] = true
		}
		for k := range live {
			rels[k] = true
		}
		for rel := range rels {
			if strings.Join(fv[rel], "\n") != strings.Join(live[rel], "\n") {
				missing := setDiffS(fv[rel], live[rel])
				extra := setDiffS(live[rel], fv[rel])
				types := map[string]bool{}
				for _, k := range append(append([]string{}, missing...), extra...) {
					if m := typeInKeyRe.FindStringSubmatch(k); m != nil {
						types["t"+m[1]] = true
					}
				}
				var tl []string
				for t := range types {
					tl = append(tl, t)
				}
				sort.Strings(tl)
				kind := "stale-extra"
				if len(missing) > 0 && len(extra) > 0 {
					kind = "both"
				} else if len(missing) > 0 {
					kind = "missing"
				}
				c.Report(fmt.Sprintf("view-differs-from-fresh|%s|types:%s", kind, strings.Join(tl, ",")),
					fmt.Sprintf("after event %d (%s) file %s: live view lacks %v and has extra %v compared with a fresh server", ei, e.Op, rel, missing, extra),
					witness(map[string]interface{}{"file": rel, "fresh_view": fv}))
				break
			}
		}
		for _, rel := range openRels {
			lp := c08Probe(srv, ws, rel, buffers[rel])
			c.Count("probe_comparisons", 1)
			if strings.Join(lp, "\n") != strings.Join(fprobes[rel], "\n") {
				d1 := setDiffS(lp, fprobes[rel])
				kind := "other"
				if len(d1) > 0 {
					kind = strings.SplitN(d1[0], ":", 2)[0]
				}
				c.Report(fmt.Sprintf("probe-differs-from-fresh|%s", kind),
					fmt.Sprintf("after event %d (%s) probes on %s differ: live %v fresh %v", ei, e.Op, rel, truncate(fmt.Sprint(d1), 300), truncate(fmt.Sprint(setDiffS(fprobes[rel], lp)), 300)),
					witness(map[string]interface{}{"file": rel}))
			}
		}
	}
}

var typeInKeyRe = regexp.MustCompile(`\[Warn type:(\d+)\]`)
