package main

// R-bind: Lua lexical scoping over the R-parse AST. For every variable-name occurrence it records the
// declaration it is bound to (or that it is a free/global name) and whether it is a read or a write.

type DeclKind int

const (
	DLocal DeclKind = iota
	DParam
	DForNum
	DForIn
	DLocalFunc
	DSelf // implicit self of a method definition (no token in the source)
)

func (k DeclKind) String() string {
	return [...]string{"local", "param", "fornum", "forin", "localfunc", "self"}[k]
}

type Decl struct {
	Name    string
	Tok     *Tok // nil for implicit self
	Kind    DeclKind
	Attr    string // const / close / ""
	VisFrom int    // byte offset from which the name is visible
	VisTo   int    // byte offset where its block ends
	Stat    *Node  // declaring statement (SLocal, SForNum, ...) or function body
	Depth   int    // function nesting depth of the declaration
	Reads   []*Occ
	Writes  []*Occ
	Init    *Node // initialiser expression for SLocal when positional match exists
	Index   int   // index among the names of the declaring statement
}

type Occ struct {
	Tok     *Tok
	Decl    *Decl // nil = free name (global)
	Write   bool
	IsDecl  bool // the declaring identifier itself
	FnDepth int  // function nesting depth at the occurrence
	Node    *Node
	// context flags used by don't-care rules
	InCond     bool // inside an if/while/until condition
	TopLevel   bool // statement is at file top level (function depth 0)
	StatIndex  int
	GlobalDef  bool // write to a free name (a global definition site)
	FuncNameBase bool // base name of `function a.b.c()` (a read of a, or a def when no path)
	Stat       *Node // for assignment targets: the SAssign / SFunction statement
}

type scope struct {
	vars   map[string][]*Decl
	parent *scope
}

type BindResult struct {
	Parse    *ParseResult
	Decls    []*Decl
	Occs     []*Occ          // all variable-name occurrences incl. declarations, in source order of visiting
	ByOff    map[int]*Occ    // token offset -> occurrence
	Globals  map[string][]*Occ // free-name occurrences by name
	Semantic []string
}

type binder struct {
	res     *BindResult
	sc      *scope
	fnDepth int
	inCond  int
	visEndOverride int
}

func RBind(pr *ParseResult) *BindResult {
	res := &BindResult{Parse: pr, ByOff: map[int]*Occ{}, Globals: map[string][]*Occ{}}
	if pr.Chunk == nil {
		return res
	}
	b := &binder{res: res}
	b.push()
	b.block(pr.Chunk, false)
	b.pop()
	return res
}

func (b *binder) push() { b.sc = &scope{vars: map[string][]*Decl{}, parent: b.sc} }
func (b *binder) pop()  { b.sc = b.sc.parent }

func (b *binder) lookup(name string) *Decl {
	for s := b.sc; s != nil; s = s.parent {
		if ds := s.vars[name]; len(ds) > 0 {
			return ds[len(ds)-1]
		}
	}
	return nil
}

func (b *binder) declare(t *Tok, name string, k DeclKind, visFrom, visTo int, st *Node) *Decl {
	d := &Decl{Name: name, Tok: t, Kind: k, VisFrom: visFrom, VisTo: visTo, Stat: st, Depth: b.fnDepth}
	b.sc.vars[name] = append(b.sc.vars[name], d)
	b.res.Decls = append(b.res.Decls, d)
	if t != nil {
		o := &Occ{Tok: t, Decl: d, IsDecl: true, FnDepth: b.fnDepth, TopLevel: b.fnDepth == 0}
		b.res.Occs = append(b.res.Occs, o)
		b.res.ByOff[t.Off] = o
	}
	return d
}

func (b *binder) use(n *Node, t *Tok, write bool) *Occ {
	d := b.lookup(t.Val)
	o := &Occ{Tok: t, Decl: d, Write: write, FnDepth: b.fnDepth, Node: n, InCond: b.inCond > 0, TopLevel: b.fnDepth == 0}
	if d != nil {
		if write {
			d.Writes = append(d.Writes, o)
			if d.Attr != "" {
				b.res.Semantic = append(b.res.Semantic, "assignment to "+d.Attr+" variable "+d.Name)
			}
		} else {
			d.Reads = append(d.Reads, o)
		}
	} else {
		o.GlobalDef = write
		b.res.Globals[t.Val] = append(b.res.Globals[t.Val], o)
	}
	b.res.Occs = append(b.res.Occs, o)
	b.res.ByOff[t.Off] = o
	return o
}

func blockEndOff(bl *Node, closer *Tok) int {
	if closer != nil {
		return closer.Off
	}
	if bl.Last != nil {
		return bl.Last.End
	}
	return 0
}

// block binds the statements of bl in the current scope; newScope pushes one first.
func (b *binder) block(bl *Node, newScope bool) {
	if bl == nil {
		return
	}
	if newScope {
		b.push()
		defer b.pop()
	}
	end := 1 << 30
	if bl.Last != nil {
		end = bl.Last.End
	}
	if b.visEndOverride > 0 {
		end = b.visEndOverride
		b.visEndOverride = 0
	}
	for _, s := range bl.List {
		b.stat(s, end)
	}
}

func (b *binder) explist(es []*Node) {
	for _, e := range es {
		b.exp(e)
	}
}

func (b *binder) stat(s *Node, blockEnd int) {
	switch s.K {
	case SEmpty, SLabel, SBreak, SGoto:
	case SAssign:
		b.explist(s.List2)
		for _, v := range s.List {
			n0 := len(b.res.Occs)
			b.assignTarget(v)
			if v.K == EName && len(b.res.Occs) > n0 {
				b.res.Occs[len(b.res.Occs)-1].Stat = s
			}
		}
	case SCall:
		b.exp(s.A)
	case SDo:
		b.block(s.Body, true)
	case SWhile:
		b.inCond++
		b.exp(s.A)
		b.inCond--
		b.block(s.Body, true)
	case SRepeat:
		b.push()
		b.visEndOverride = s.Last.End // the body's locals stay visible in the until condition
		b.block(s.Body, false)
		b.inCond++
		b.exp(s.A) // the condition sees the body's locals
		b.inCond--
		b.pop()
	case SIf:
		for i, c := range s.List {
			b.inCond++
			b.exp(c)
			b.inCond--
			b.block(s.Blocks[i], true)
		}
		if s.Body != nil {
			b.block(s.Body, true)
		}
	case SForNum:
		b.exp(s.A)
		b.exp(s.B)
		if s.C != nil {
			b.exp(s.C)
		}
		b.push()
		d := b.declare(s.Names[0], s.Names[0].Val, DForNum, s.Body.First.Off, s.Last.Off, s)
		_ = d
		b.block(s.Body, false)
		b.pop()
	case SForIn:
		b.explist(s.List2)
		b.push()
		for i, n := range s.Names {
			d := b.declare(n, n.Val, DForIn, s.Body.First.Off, s.Last.Off, s)
			d.Index = i
		}
		b.block(s.Body, false)
		b.pop()
	case SFunction:
		base := s.Names[0]
		if len(s.Names) == 1 && !s.Flag {
			// function f() ... end  ==  f = function() ... end
			o := b.use(s, base, true)
			o.FuncNameBase = true
		} else {
			o := b.use(s, base, false)
			o.FuncNameBase = true
		}
		b.funcbody(s.Fn, s.Flag)
	case SLocalFunction:
		b.declare(s.Names[0], s.Names[0].Val, DLocalFunc, s.Names[0].End, blockEnd, s)
		b.funcbody(s.Fn, false)
	case SLocal:
		b.explist(s.List2)
		for i, n := range s.Names {
			d := b.declare(n, n.Val, DLocal, s.Last.End, blockEnd, s)
			d.Index = i
			if s.Attr[i] != nil {
				d.Attr = s.Attr[i].Val
			}
			if i < len(s.List2) {
				d.Init = s.List2[i]
			}
		}
	case SReturn:
		b.explist(s.List2)
	}
}

func (b *binder) assignTarget(v *Node) {
	switch v.K {
	case EName:
		b.use(v, v.Tok, true)
	case EIndex:
		b.exp(v.A)
		if !v.Flag {
			b.exp(v.B)
		}
	default:
		b.exp(v)
	}
}

func (b *binder) funcbody(fb *Node, method bool) {
	b.fnDepth++
	b.push()
	end := fb.Last.Off
	if method {
		b.declare(nil, "self", DSelf, fb.First.Off, end, fb)
	}
	for i, p := range fb.Names {
		d := b.declare(p, p.Val, DParam, fb.Tok.End, end, fb)
		d.Index = i
	}
	saved := b.inCond
	b.inCond = 0
	b.block(fb.Body, false)
	b.inCond = saved
	b.pop()
	b.fnDepth--
}

func (b *binder) exp(e *Node) {
	if e == nil {
		return
	}
	switch e.K {
	case EName:
		b.use(e, e.Tok, false)
	case EFunction:
		b.funcbody(e.Fn, false)
	case EIndex:
		b.exp(e.A)
		if !e.Flag {
			b.exp(e.B)
		}
	case ECall:
		b.exp(e.A)
		b.explist(e.List)
	case EParen, EUnop:
		b.exp(e.A)
	case EBinop:
		b.exp(e.A)
		b.exp(e.B)
	case ETable:
		for _, f := range e.List {
			switch f.K {
			case FPos, FNamed:
				b.exp(f.A)
			case FExpr:
				b.exp(f.A)
				b.exp(f.B)
			}
		}
	}
}

// SemanticOnly lists every compile-time rule outside the grammar that the chunk breaks.
func (br *BindResult) SemanticOnly() []string {
	return append(append([]string{}, br.Parse.Semantic...), br.Semantic...)
}
