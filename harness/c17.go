package main

// C17 — each configuration switch silences exactly the diagnostics it names.
// Monitor: the client view under configuration c versus the filtered view of the all-enabled
// configuration (R-conf), for three delivery modes: initialization options, a later
// didChangeConfiguration, and luahelper.json.

import (
	_ "embed"
	"encoding/json"
	"fmt"
	"path/filepath"
	"regexp"
	"sort"
	"strings"
)

//go:embed data/zoo.lua
var zooTemplate string

func zooFile(n int) string {
	s := regexp.MustCompile(`1\b`).ReplaceAllString(zooTemplate, fmt.Sprint(n))
	return strings.ReplaceAll(s, "Z1", fmt.Sprintf("Z%d", n))
}

func c17Zoo() map[string]string {
	return map[string]string{
		"zoo1.lua":         zooFile(1),
		"sub/zoo2.lua":     zooFile(2),
		"sub/deep/zoo3.lua": zooFile(3),
		"syn1.lua":         "local x = 1\nif x\nend\n",
		"sub/syn2.lua":     "local y = (\n",
		"other/zoo4.lua":   zooFile(4),
	}
}

type c17Conf struct {
	Label      string   `json:"label"`
	Master     bool     `json:"master"`
	Flags      []bool   `json:"flags"` // index i = type i (1..25); index 0 unused
	IgnoreErr  []string `json:"ignore_error_patterns,omitempty"`
	IgnoreFile []string `json:"ignore_analysis_patterns,omitempty"`
	// per-file type rules (luahelper.json only: IgnoreFileErrTypes)
	FileTypes []c17FileTypes `json:"file_type_rules,omitempty"`
}

type c17FileTypes struct {
	File  string `json:"File"`
	Types []int  `json:"Types"`
}

func c17AllOn() c17Conf {
	f := make([]bool, 26)
	for i := range f {
		f[i] = true
	}
	return c17Conf{Label: "all-on", Master: true, Flags: f}
}

func (cf c17Conf) initOptions() map[string]interface{} {
	o := map[string]interface{}{"client": "vsc", "LocalRun": false, "AllEnable": cf.Master}
	for i := 1; i <= 25; i++ {
		o[checkFlagNames[i]] = cf.Flags[i]
	}
	if cf.IgnoreErr != nil {
		o["IgnoreFileOrDirError"] = cf.IgnoreErr
	}
	if cf.IgnoreFile != nil {
		o["IgnoreFileOrDir"] = cf.IgnoreFile
	}
	return o
}

func (cf c17Conf) settings() map[string]interface{} {
	w := map[string]interface{}{"AllEnable": cf.Master}
	for i := 1; i <= 25; i++ {
		w[checkFlagNames[i]] = cf.Flags[i]
	}
	base := map[string]interface{}{}
	if cf.IgnoreErr != nil {
		base["IgnoreFileOrDirError"] = cf.IgnoreErr
	} else {
		base["IgnoreFileOrDirError"] = []string{}
	}
	if cf.IgnoreFile != nil {
		base["IgnoreFileOrDir"] = cf.IgnoreFile
	} else {
		base["IgnoreFileOrDir"] = []string{}
	}
	return map[string]interface{}{"settings": map[string]interface{}{"luahelper": map[string]interface{}{"Warn": w, "base": base}}}
}

// luahelper.json expressing the same configuration (types are listed as ignored)
func (cf c17Conf) jsonFile() string {
	m := map[string]interface{}{"BaseDir": "./"}
	if !cf.Master {
		m["ShowWarnFlag"] = 0
	} else {
		m["ShowWarnFlag"] = 1
	}
	var ign []int
	for i := 1; i <= 25; i++ {
		if !cf.Flags[i] {
			ign = append(ign, i)
		}
	}
	if ign != nil {
		m["IgnoreErrorTypes"] = ign
	}
	if cf.IgnoreErr != nil {
		m["IgnoreFileErr"] = cf.IgnoreErr
	}
	if cf.IgnoreFile != nil {
		m["IgnoreFileOrFloder"] = cf.IgnoreFile
	}
	if cf.FileTypes != nil {
		m["IgnoreFileErrTypes"] = cf.FileTypes
	}
	b, _ := json.Marshal(m)
	return string(b)
}

// excluded: does pattern list exclude this workspace-relative file? (documented use: literal file,
// literal folder with trailing slash, or a Go regular expression, matched against the path)
func c17Excluded(rel string, pats []string) bool {
	for _, p := range pats {
		if p == "" {
			continue
		}
		if strings.Contains("/"+rel, "/"+p) || strings.Contains(rel, p) {
			return true
		}
		if re, err := regexp.Compile(p); err == nil && re.MatchString(rel) {
			return true
		}
	}
	return false
}

type c17View map[string][]string // rel -> sorted diagnostic keys

func c17Norm(ws *Workspace, view map[string][]Diag) c17View {
	out := c17View{}
	for u, ds := range view {
		rel := ws.Rel(u)
		for _, d := range ds {
			out[rel] = append(out[rel], fmt.Sprintf("t%d|%s|%s", d.Type, d.Range, strings.ReplaceAll(d.Message, ws.Root, "$ROOT")))
		}
		sort.Strings(out[rel])
	}
	return out
}

func c17Type(key string) int {
	var t int
	fmt.Sscanf(key, "t%d|", &t)
	return t
}

// expected view under cf from the baseline view (same delivery mode, all enabled)
func c17Expect(base c17View, cf c17Conf, maxType int) c17View {
	out := c17View{}
	if !cf.Master {
		return out
	}
	for rel, keys := range base {
		if c17Excluded(rel, cf.IgnoreErr) {
			continue
		}
		for _, k := range keys {
			t := c17Type(k)
			if t >= 1 && t <= 25 && !cf.Flags[t] {
				continue
			}
			ruled := false
			for _, ft := range cf.FileTypes {
				if c17Excluded(rel, []string{ft.File}) {
					for _, x := range ft.Types {
						if x == t {
							ruled = true
						}
					}
				}
			}
			if ruled {
				continue
			}
			if maxType > 0 && t > maxType {
				continue
			}
			out[rel] = append(out[rel], k)
		}
	}
	return out
}

func c17Diff(a, b c17View) (missing, extra []string) {
	rels := map[string]bool{}
	for r := range a {
		rels[r] = true
	}
	for r := range b {
		rels[r] = true
	}
	for r := range rels {
		for _, k := range setDiffS(a[r], b[r]) {
			missing = append(missing, r+"|"+k)
		}
		for _, k := range setDiffS(b[r], a[r]) {
			extra = append(extra, r+"|"+k)
		}
	}
	sort.Strings(missing)
	sort.Strings(extra)
	return
}

func c17Types(keys []string) string {
	m := map[int]bool{}
	for _, k := range keys {
		parts := strings.SplitN(k, "|", 2)
		if len(parts) == 2 {
			m[c17Type(parts[1])] = true
		}
	}
	var l []int
	for t := range m {
		l = append(l, t)
	}
	sort.Ints(l)
	var s []string
	for _, t := range l {
		s = append(s, fmt.Sprint(t))
	}
	return strings.Join(s, ",")
}

func c17OffList(cf c17Conf) string {
	var s []string
	if !cf.Master {
		return "master"
	}
	for i := 1; i <= 25; i++ {
		if !cf.Flags[i] {
			s = append(s, fmt.Sprint(i))
		}
	}
	if len(s) > 6 {
		return fmt.Sprintf("%d-types-off", len(s))
	}
	return strings.Join(s, ",")
}

// c17DirtyRel: the document that carries an unsaved edit in mode "change-dirty"
const c17DirtyRel = "zoo1.lua"

func c17Observe(c *Ctx, files map[string]string, mode string, cf c17Conf, tag string) (c17View, *Workspace, error) {
	f := map[string]string{}
	for k, v := range files {
		f[k] = v
	}
	opts := ServerOpts{Tag: tag}
	events := strings.HasSuffix(mode, "+events")
	mode = strings.TrimSuffix(mode, "+events")
	// +folder2: a second workspace folder next to the main one, with files whose folder-relative paths equal those of the main
	// folder (zoo1.lua, sub/zoo2.lua, sub/deep/zoo3.lua); the analysis-ignore rules are rules of the main folder
	folder2 := strings.HasSuffix(mode, "+folder2")
	mode = strings.TrimSuffix(mode, "+folder2")
	if folder2 {
		f["../second/zoo1.lua"] = zooFile(5)
		f["../second/sub/zoo2.lua"] = zooFile(6)
		f["../second/sub/deep/zoo3.lua"] = zooFile(7)
	}
	switch mode {
	case "init":
		opts.Init = cf.initOptions()
	case "change", "change-dirty":
		opts.Init = c17AllOn().initOptions()
	case "change-from-rules":
		// the session starts with ignore rules of both kinds; the settings that arrive later replace them (also by none)
		st := c17AllOn()
		st.IgnoreFile = []string{"sub/"}
		st.IgnoreErr = []string{"zoo1.lua"}
		opts.Init = st.initOptions()
	case "json":
		f["luahelper.json"] = cf.jsonFile()
		opts.Init = c17AllOn().initOptions()
	}
	ws := c.NewWorkspace(f)
	opts.Root = ws.Root
	if folder2 {
		opts.Folders = []string{ws.Root, filepath.Join(filepath.Dir(ws.Root), "second")}
	}
	srv, err := StartServer(opts)
	if err != nil {
		msg := err.Error()
		if srv != nil {
			msg += ": " + truncate(srv.StderrHead(300), 300)
			srv.Close()
		}
		ws.Remove()
		return nil, nil, fmt.Errorf("%s", msg)
	}
	defer srv.Close()
	if mode == "change-dirty" {
		// one document is open with an unsaved edit that has a syntax error when the settings arrive
		srv.DidOpen(ws.URI(c17DirtyRel), f[c17DirtyRel])
		srv.DidChangeFull(ws.URI(c17DirtyRel), 2, f[c17DirtyRel]+"\nlocal broken = (\n")
		if err := srv.Fence(); err != nil {
			ws.Remove()
			return nil, nil, err
		}
	}
	if mode == "change" || mode == "change-dirty" || mode == "change-from-rules" {
		// the first configuration notification is ignored by design
		srv.Notify("workspace/didChangeConfiguration", c17AllOn().settings())
		srv.Notify("workspace/didChangeConfiguration", cf.settings())
		if err := srv.Fence(); err != nil {
			ws.Remove()
			return nil, nil, err
		}
	}
	if events {
		// with the configuration in effect every Lua file of the workspace changes on disk (a new undefined name at its end)
		// and one watched-files notification announces them all, the files that the configuration excludes from analysis first
		var rels []string
		for rel := range f {
			if strings.HasSuffix(rel, ".lua") {
				rels = append(rels, rel)
			}
		}
		sort.Slice(rels, func(i, j int) bool {
			pi, pj := c17Excluded(rels[i], cf.IgnoreFile), c17Excluded(rels[j], cf.IgnoreFile)
			if pi != pj {
				return pi
			}
			return rels[i] < rels[j]
		})
		var chs []interface{}
		for _, rel := range rels {
			ws.Write(rel, f[rel]+"\nprint(c17NameThatAppearsWithTheEvent)\n")
			chs = append(chs, map[string]interface{}{"uri": ws.URI(rel), "type": 2})
		}
		srv.Notify("workspace/didChangeWatchedFiles", map[string]interface{}{"changes": chs})
		if err := srv.Fence(); err != nil {
			ws.Remove()
			return nil, nil, err
		}
	}
	v := c17Norm(ws, srv.View())
	delete(v, "luahelper.json")
	return v, ws, nil
}

func runC17(c *Ctx) {
	zoo := c17Zoo()
	root := NewRng(c.Seed).Fork(17)
	var confs []c17Conf
	all := c17AllOn()
	for t := 1; t <= 25; t++ {
		cf := c17AllOn()
		cf.Flags[t] = false
		cf.Label = fmt.Sprintf("only-%d-off", t)
		confs = append(confs, cf)
		on := c17AllOn()
		for i := 1; i <= 25; i++ {
			on.Flags[i] = i == t
		}
		on.Label = fmt.Sprintf("only-%d-on", t)
		confs = append(confs, on)
	}
	m := c17AllOn()
	m.Master = false
	m.Label = "master-off"
	confs = append(confs, m)
	nRand := c.N(300, 20000)
	for i := 0; i < nRand; i++ {
		r := root.Fork(uint64(i))
		cf := c17AllOn()
		p := r.Range(1, 9)
		for t := 1; t <= 25; t++ {
			cf.Flags[t] = r.Chance(p, 10)
		}
		cf.Label = fmt.Sprintf("random-%d", i)
		if r.Chance(1, 3) {
			cf.IgnoreErr = []string{r.Pick([]string{"zoo1.lua", "sub/", "sub/zo.*lua", "nomatch/", "other/zoo4.lua", "sub/deep/", "syn.*lua", "(", "*"})}
		}
		confs = append(confs, cf)
	}
	// generated regular expressions: a real path of the zoo with a stretch replaced by `.*` / a character class, ending in
	// `\.lua`, `.lua` or `lua` (a pattern ending in `.lua` is classified as a file pattern, anything else as a folder pattern)
	var genPats []string
	{
		var rels []string
		for rel := range zoo {
			if strings.HasSuffix(rel, ".lua") {
				rels = append(rels, rel)
			}
		}
		sort.Strings(rels)
		rp := root.Fork(0x70617473)
		for i := 0; i < c.N(10, 400); i++ {
			rel := rels[rp.Intn(len(rels))]
			stem := strings.TrimSuffix(rel, ".lua")
			a := rp.Intn(len(stem))
			b := a + rp.Intn(len(stem)-a)
			mid := rp.Pick([]string{".*", ".+", "[a-z0-9/]*", "\\w*"})
			genPats = append(genPats, stem[:a]+mid+stem[b:]+rp.Pick([]string{"\\.lua", ".lua", "lua", "\\.lua", ""}))
		}
	}
	for _, p := range append([]string{"zoo1.lua", "sub/", "sub/zo.*lua", "nomatch/", "other/zoo4.lua", "sub/deep/", "syn.*lua", "(", "[", "sub/zo.*\\.lua", "zoo[12]\\.lua", "deep/.*3\\.lua", "^sub/", "^zoo1\\.lua", "^other/zo.*lua"}, genPats...) {
		cf := c17AllOn()
		cf.IgnoreErr = []string{p}
		cf.Label = "ignore-errors:" + p
		confs = append(confs, cf)
	}
	// (literal rules, unanchored regular expressions, and expressions anchored at the start of the project-relative path,
	// the form the manual shows)
	for _, p := range []string{"zoo1.lua", "sub/", "other/", "sub/deep/zoo3.lua", "^sub/", "^zoo1\\.lua", "^other/zo.*\\.lua", "sub/zo.*\\.lua", "^syn.*\\.lua", "^sub/deep/"} {
		// (a rule that ends in ".lua" is a file rule, every other rule a folder rule - by design; the rules here are
		// unambiguous in that respect)
		cf := c17AllOn()
		cf.IgnoreFile = []string{p}
		cf.Label = "ignore-analysis:" + p
		confs = append(confs, cf)
	}
	// lists of two or three error-ignore rules, malformed ones (kept as literal-only rules) before and after well-formed ones
	{
		rp := root.Fork(0x6c697374)
		pool := []string{"zoo1.lua", "sub/", "other/zoo4.lua", "sub/deep/", "syn.*lua", "sub/zo.*\\.lua", "*_gen.lua", "lib(.lua", "[gen.lua", "(", "nomatch/", "zoo[12]\\.lua", "deep/zoo3.lua"}
		for i := 0; i < c.N(30, 600); i++ {
			cf := c17AllOn()
			for k := rp.Range(2, 3); k > 0; k-- {
				cf.IgnoreErr = append(cf.IgnoreErr, rp.Pick(pool))
			}
			cf.Label = fmt.Sprintf("ignore-errors-list-%d", i)
			confs = append(confs, cf)
		}
	}
	// per-file type rules: one to three rules on different files naming different types (luahelper.json only)
	{
		var rels []string
		for rel := range zoo {
			if strings.HasSuffix(rel, ".lua") {
				rels = append(rels, rel)
			}
		}
		sort.Strings(rels)
		rp := root.Fork(0x66747970)
		for i := 0; i < c.N(24, 400); i++ {
			cf := c17AllOn()
			nr := rp.Range(1, 3)
			for _, ri := range rp.Perm(len(rels))[:nr] {
				var ts []int
				for k := rp.Range(1, 3); k > 0; k-- {
					ts = append(ts, []int{2, 3, 4, 5, 7, 8, 10, 13, 14, 15, 16, 17, 19, 20}[rp.Intn(14)])
				}
				cf.FileTypes = append(cf.FileTypes, c17FileTypes{File: rels[ri], Types: ts})
			}
			cf.Label = fmt.Sprintf("file-type-rules-%d", i)
			confs = append(confs, cf)
		}
	}
	// baselines per delivery mode
	base := map[string]c17View{}
	for _, mode := range []string{"init", "change", "json", "init+events", "init+folder2", "init+folder2+events"} {
		v, ws, err := c17Observe(c, zoo, mode, all, "c17base"+mode)
		if err != nil {
			c.Inconclusive("baseline run failed: " + err.Error())
			c.Finish("", 1)
		}
		ws.Remove()
		base[mode] = v
		seen := map[int]bool{}
		for _, keys := range v {
			for _, k := range keys {
				seen[c17Type(k)] = true
			}
		}
		var tl []int
		for t := range seen {
			tl = append(tl, t)
		}
		sort.Ints(tl)
		c.Set("types_in_all_enabled_baseline_"+mode, tl)
	}
	{
		mi, ex := c17Diff(base["init"], base["change"])
		if len(mi)+len(ex) > 0 {
			c.Report("baseline-modes-differ|init-vs-change", fmt.Sprintf("all-enabled via init options and via didChangeConfiguration differ: %v / %v", mi, ex), nil)
		}
	}
	type job struct {
		cf   c17Conf
		mode string
	}
	var jobs []job
	for _, cf := range confs {
		if cf.FileTypes != nil {
			jobs = append(jobs, job{cf, "json"}) // client settings have no per-file type rules
			continue
		}
		jobs = append(jobs, job{cf, "init"}, job{cf, "change"})
		if len(jobs)%3 == 0 {
			jobs = append(jobs, job{cf, "change-dirty"})
		}
		if len(jobs)%4 == 1 {
			jobs = append(jobs, job{cf, "change-from-rules"})
		}
		if len(jobs)%3 == 1 || (cf.IgnoreFile != nil && len(jobs)%2 == 0) {
			jobs = append(jobs, job{cf, "init+events"})
		}
		if cf.IgnoreErr == nil && (cf.IgnoreFile != nil || len(jobs)%5 == 0) {
			// two workspace folders (flags and analysis-ignore rules only: the documentation does not say what the
			// diagnostics-ignore patterns are matched against outside the main folder)
			jobs = append(jobs, job{cf, "init+folder2"})
			if len(jobs)%2 == 0 {
				jobs = append(jobs, job{cf, "init+folder2+events"})
			}
		}
		if len(cf.IgnoreErr) != 1 || (cf.IgnoreErr[0] != "(" && cf.IgnoreErr[0] != "[" && cf.IgnoreErr[0] != "*") {
			jobs = append(jobs, job{cf, "json"})
		}
	}
	parallel(len(jobs), 14, func(ji int) {
		j := jobs[ji]
		cf := j.cf
		c.Eval(1)
		files := zoo
		bmode := j.mode
		if bmode == "change-dirty" || bmode == "change-from-rules" {
			bmode = "change"
		}
		b := base[bmode]
		if cf.IgnoreFile != nil {
			// analysis-ignore: the baseline is the all-enabled run on the workspace without those files
			files2 := map[string]string{}
			for rel, txt := range zoo {
				if !c17Excluded(rel, cf.IgnoreFile) {
					files2[rel] = txt
				}
			}
			bv, bws, err := c17Observe(c, files2, bmode, all, fmt.Sprintf("c17b%d", ji))
			if err != nil {
				c.Inconclusive("baseline run failed: " + err.Error())
				return
			}
			bws.Remove()
			b = bv
		}
		got, ws, err := c17Observe(c, files, j.mode, cf, fmt.Sprintf("c17j%d", ji))
		invalidPat := len(cf.IgnoreErr) == 1 && (cf.IgnoreErr[0] == "(" || cf.IgnoreErr[0] == "[" || cf.IgnoreErr[0] == "*")
		if err != nil {
			c.Report(fmt.Sprintf("server-down|%s|invalid-pattern=%v", j.mode, invalidPat), fmt.Sprintf("configuration %s delivered via %s took the server down: %v", cf.Label, j.mode, err), map[string]interface{}{"conf": cf, "mode": j.mode})
			return
		}
		ws.Remove()
		c.Count("configurations_checked_"+j.mode, 1)
		// a regular expression that also matches inside the scratch workspace's own directory path (".../ws/syn1.lua" for
		// `s.+yn1`) selects different files depending on whether it is applied to the relative or to the full path; the
		// documentation does not say which, so such a configuration asserts nothing
		ambiguous := false
		for rel := range files {
			if c17Excluded(rel, cf.IgnoreErr) != c17Excluded(strings.TrimPrefix(ws.Root, "/")+"/"+rel, cf.IgnoreErr) {
				ambiguous = true
			}
		}
		if ambiguous {
			c.Count("dont_care_pattern_matches_scratch_directory_path", 1)
			return
		}
		if invalidPat {
			// malformed settings must be rejected or ignored without taking the server down: alive is all that is asserted
			c.Count("invalid_pattern_survived", 1)
			return
		}
		want := c17Expect(b, cf, 0)
		if j.mode == "change-dirty" {
			// the document with the unsaved edit shows its buffer's diagnostics; what is asserted for it: when the settings
			// exclude syntax errors for that file (master switch, type 1, an ignore pattern), none is shown
			excluded := !cf.Master || (len(cf.Flags) > 1 && !cf.Flags[1]) || c17Excluded(c17DirtyRel, cf.IgnoreErr) || c17Excluded(c17DirtyRel, cf.IgnoreFile)
			if excluded {
				c.Count("unsaved_syntax_error_excluded_by_settings", 1)
				for _, k := range got[c17DirtyRel] {
					if c17Type(k) == 1 {
						c.Report("unsaved-buffer-syntax-error-shown-although-excluded|"+c17OffList(cf), fmt.Sprintf("configuration %s arrives while %s has an unsaved edit with a syntax error: the view still shows %q", cf.Label, c17DirtyRel, k),
							map[string]interface{}{"conf": cf, "mode": j.mode})
						break
					}
				}
			}
			delete(want, c17DirtyRel)
			delete(got, c17DirtyRel)
		}
		missing, extra := c17Diff(want, got)
		nd := 0
		for _, ks := range got {
			nd += len(ks)
		}
		c.Count("diagnostics_compared", int64(nd))
		if len(missing) == 0 && len(extra) == 0 {
			c.Distinct(j.mode + "|" + fmt.Sprint(cf.Master, cf.Flags, cf.IgnoreErr, cf.IgnoreFile, cf.FileTypes))
			return
		}
		kind := "analysis-ignore"
		if cf.IgnoreFile == nil {
			kind = "flags"
			if cf.IgnoreErr != nil {
				kind = "flags+ignore-errors"
			}
		}
		sig := fmt.Sprintf("view-not-filtered-baseline|%s|off:%s|missing-types:%s|extra-types:%s", kind, c17OffList(cf), c17Types(missing), c17Types(extra))
		if len(strings.Split(c17OffList(cf), ",")) > 3 || strings.HasSuffix(c17OffList(cf), "types-off") {
			sig = fmt.Sprintf("view-not-filtered-baseline|%s|off:many|missing-types:%s|extra-types:%s", kind, c17Types(missing), c17Types(extra))
		}
		c.Report(sig, fmt.Sprintf("configuration %s via %s: missing %v, extra %v", cf.Label, j.mode, truncate(fmt.Sprint(missing), 400), truncate(fmt.Sprint(extra), 400)),
			map[string]interface{}{"conf": cf, "mode": j.mode, "missing": missing, "extra": extra})
	})
	c.Sample(map[string]interface{}{"conf": confs[0], "modes": []string{"init", "change", "json"}})
	c.Sample(map[string]interface{}{"conf": confs[len(confs)-20]})
	c.Finish("a zoo workspace (6 files in 4 directories) that triggers diagnostic types 1-10 and 12-21 (22, 26 in config-file mode) in several files; configurations: each single "+
		"flag off, each single flag on, random subsets, master off, error-ignore patterns (file, folder, fixed and generated regular expressions ending in `\\.lua`, `.lua`, `lua` or nothing, non-matching, invalid, and lists of two or three rules in which malformed rules precede or follow well-formed ones) analysis-ignore patterns, and (luahelper.json) one to three per-file type rules naming different types for different files; each "+
		"delivered as init options, as a later didChangeConfiguration and as luahelper.json; the published view must equal the all-enabled view of the same delivery mode "+
		"filtered by the configuration. distinct_nontrivial = distinct (mode, configuration) pairs whose view matched exactly", 30)
}
