package main

// LSP driver: the client boundary is the observation boundary. Every outgoing
// message is journalled before it is written; publishDiagnostics is folded
// into the client view; verif/sync is a pure fence (see DESIGN 1, dispatch order).

import (
	"bufio"
	"bytes"
	"encoding/json"
	"errors"
	"fmt"
	"io"
	"os"
	"os/exec"
	"path/filepath"
	"regexp"
	"sort"
	"strconv"
	"strings"
	"sync"
	"syscall"
	"time"
)

type Position struct {
	Line      int `json:"line"`
	Character int `json:"character"`
}

type Range struct {
	Start Position `json:"start"`
	End   Position `json:"end"`
}

func (r Range) String() string {
	return fmt.Sprintf("%d:%d-%d:%d", r.Start.Line, r.Start.Character, r.End.Line, r.End.Character)
}

type Location struct {
	URI   string `json:"uri"`
	Range Range  `json:"range"`
}

type Related struct {
	Location Location `json:"location"`
	Message  string   `json:"message"`
}

type Diag struct {
	Range    Range     `json:"range"`
	Severity int       `json:"severity"`
	Message  string    `json:"message"`
	Related  []Related `json:"relatedInformation,omitempty"`
	Type     int       `json:"-"`
}

var diagTypeRe = regexp.MustCompile(`^\[Warn type:(\d+)\], `)

func (d *Diag) fill() {
	if m := diagTypeRe.FindStringSubmatch(d.Message); m != nil {
		d.Type, _ = strconv.Atoi(m[1])
	}
}

// Key is a canonical string used for multiset comparison.
func (d Diag) Key() string {
	var rel []string
	for _, r := range d.Related {
		rel = append(rel, r.Location.URI+"@"+r.Location.Range.String()+"@"+r.Message)
	}
	sort.Strings(rel)
	return fmt.Sprintf("%s|%d|%s|%s", d.Range, d.Severity, d.Message, strings.Join(rel, ";"))
}

type RPCError struct {
	Code    int             `json:"code"`
	Message string          `json:"message"`
	Data    json.RawMessage `json:"data,omitempty"`
}

type wireMsg struct {
	JSONRPC string           `json:"jsonrpc"`
	ID      *json.RawMessage `json:"id,omitempty"`
	Method  string           `json:"method,omitempty"`
	Params  json.RawMessage  `json:"params,omitempty"`
	Result  json.RawMessage  `json:"result,omitempty"`
	Error   *RPCError        `json:"error,omitempty"`
}

type Reply struct {
	Result json.RawMessage
	Err    *RPCError
	RecvAt int64 // logical clock at receipt
}

var (
	ErrDead    = errors.New("server process died")
	ErrHang    = errors.New("server hang: CPU budget exhausted without answer")
	ErrBlocked = errors.New("server blocked: no CPU progress and no answer")
	ErrSlow    = errors.New("watchdog: inconclusive wait")
)

type ServerOpts struct {
	Binary    string
	Root      string
	Init      map[string]interface{} // initializationOptions (nil => default all on)
	NoInit    bool                   // do not send initialize/initialized
	RawInit   json.RawMessage        // send this as initialize params instead
	Env       []string
	WorkDir   string // scratch directory for journal/stderr
	Tag       string
	Folders   []string
	NoRootURI bool
}

type Server struct {
	opts    ServerOpts
	cmd     *exec.Cmd
	stdin   io.WriteCloser
	wmu     sync.Mutex
	mu      sync.Mutex
	cond    *sync.Cond
	nextID  int
	pending map[int]chan Reply
	diags   map[string][]Diag
	pubs    int // number of publishDiagnostics received
	pubLog  []PubEvent
	KeepPub bool
	clock   int64
	dead    bool
	deadCh  chan struct{}
	waitErr error
	exited  chan struct{}

	journal    *os.File
	jmu        sync.Mutex
	StderrPath string
	JournalPth string
	ctlW       *os.File
	ctlR       *bufio.Reader
	ctlRF      *os.File
	ctlMu      sync.Mutex
	evtMu      sync.Mutex
	events     []string
	evtDone    chan struct{}

	Sent     int
	Requests int
	InitRes  json.RawMessage
	InitErr  *RPCError
	otherNtf map[string]int
}

type PubEvent struct {
	Clock int64
	URI   string
	Diags []Diag
}

func allOnInit() map[string]interface{} {
	o := map[string]interface{}{"client": "vsc", "AllEnable": true, "LocalRun": false}
	for _, k := range checkFlagNames[1:] {
		o[k] = true
	}
	return o
}

// checkFlagNames[i] is the init option naming diagnostic type i (0 = master switch).
var checkFlagNames = []string{"AllEnable", "CheckSyntax", "CheckNoDefine", "CheckAfterDefine", "CheckLocalNoUse",
	"CheckTableDuplicateKey", "CheckReferNoFile", "CheckAssignParamNum", "CheckLocalDefineParamNum", "CheckGotoLable",
	"CheckFuncParam", "CheckImportModuleVar", "CheckIfNotVar", "CheckFunctionDuplicateParam",
	"CheckBinaryExpressionDuplicate", "CheckErrorOrAlwaysTrue", "CheckErrorAndAlwaysFalse", "CheckNoUseAssign",
	"CheckAnnotateType", "CheckDuplicateIf", "CheckSelfAssign", "CheckFloatEq", "CheckClassField",
	"CheckConstAssign", "CheckFuncParamType", "CheckFuncReturnType"}

func fileURI(path string) string { return "file://" + path }

func uriPath(uri string) string { return strings.TrimPrefix(uri, "file://") }

// StartServer launches a server child process and (unless NoInit) performs initialize + initialized + fence.
func StartServer(o ServerOpts) (*Server, error) {
	if o.Binary == "" {
		o.Binary = filepath.Join(buildDir(), "lualsp")
	}
	if o.WorkDir == "" {
		o.WorkDir = filepath.Dir(o.Root)
	}
	if o.Tag == "" {
		o.Tag = "srv"
	}
	s := &Server{opts: o, pending: map[int]chan Reply{}, diags: map[string][]Diag{}, deadCh: make(chan struct{}),
		exited: make(chan struct{}), evtDone: make(chan struct{}), otherNtf: map[string]int{}}
	s.cond = sync.NewCond(&s.mu)
	uniq := fmt.Sprintf("%s-%d", o.Tag, time.Now().UnixNano()%1000000000)
	s.StderrPath = filepath.Join(o.WorkDir, uniq+".stderr")
	s.JournalPth = filepath.Join(o.WorkDir, uniq+".journal")
	var err error
	s.journal, err = os.Create(s.JournalPth)
	if err != nil {
		return nil, err
	}
	stderrF, err := os.Create(s.StderrPath)
	if err != nil {
		return nil, err
	}
	cmd := exec.Command(o.Binary, "-mode", "1")
	cmd.Dir = o.WorkDir
	cmd.Stderr = stderrF
	cmd.Env = append(os.Environ(), "GOTRACEBACK=single")
	cmd.Env = append(cmd.Env, o.Env...)
	// side channels: fd3 = ctl in (server reads), fd4 = ctl out (server writes), fd5 = evt (server writes)
	ctlInR, ctlInW, _ := os.Pipe()
	ctlOutR, ctlOutW, _ := os.Pipe()
	evtR, evtW, _ := os.Pipe()
	cmd.ExtraFiles = []*os.File{ctlInR, ctlOutW, evtW}
	cmd.Env = append(cmd.Env, "VERIF_CTL_IN_FD=3", "VERIF_CTL_OUT_FD=4", "VERIF_EVT_FD=5")
	cmd.SysProcAttr = &syscall.SysProcAttr{Setpgid: true}
	s.stdin, err = cmd.StdinPipe()
	if err != nil {
		return nil, err
	}
	stdout, err := cmd.StdoutPipe()
	if err != nil {
		return nil, err
	}
	if err := cmd.Start(); err != nil {
		return nil, err
	}
	stderrF.Close()
	ctlInR.Close()
	ctlOutW.Close()
	evtW.Close()
	s.cmd = cmd
	s.ctlW = ctlInW
	s.ctlRF = ctlOutR
	s.ctlR = bufio.NewReader(ctlOutR)
	go s.readLoop(bufio.NewReaderSize(stdout, 1<<16))
	go s.evtLoop(evtR)
	go func() {
		s.waitErr = cmd.Wait()
		close(s.exited)
	}()
	if o.NoInit {
		return s, nil
	}
	var params interface{}
	if o.RawInit != nil {
		params = o.RawInit
	} else {
		init := o.Init
		if init == nil {
			init = allOnInit()
		}
		folders := []map[string]string{}
		for _, f := range o.Folders {
			folders = append(folders, map[string]string{"uri": fileURI(f), "name": filepath.Base(f)})
		}
		p := map[string]interface{}{"processId": nil, "rootPath": o.Root, "rootUri": fileURI(o.Root),
			"initializationOptions": init, "workspaceFolders": folders, "capabilities": map[string]interface{}{}}
		params = p
	}
	rep, err := s.Request("initialize", params)
	if err != nil {
		return s, err
	}
	s.InitRes = rep.Result
	s.InitErr = rep.Err
	if rep.Err != nil {
		return s, nil
	}
	s.Notify("initialized", map[string]interface{}{})
	if err := s.Fence(); err != nil {
		return s, err
	}
	return s, nil
}

func (s *Server) evtLoop(r *os.File) {
	sc := bufio.NewScanner(r)
	sc.Buffer(make([]byte, 1<<16), 1<<20)
	for sc.Scan() {
		s.evtMu.Lock()
		s.events = append(s.events, sc.Text())
		s.evtMu.Unlock()
	}
	r.Close()
	close(s.evtDone)
}

// Events returns the H2 hook lines seen so far.
func (s *Server) Events() []string {
	s.evtMu.Lock()
	defer s.evtMu.Unlock()
	return append([]string(nil), s.events...)
}

func (s *Server) readLoop(r *bufio.Reader) {
	defer func() {
		s.mu.Lock()
		s.dead = true
		for _, ch := range s.pending {
			close(ch)
		}
		s.pending = map[int]chan Reply{}
		s.cond.Broadcast()
		s.mu.Unlock()
		close(s.deadCh)
	}()
	for {
		n := -1
		for {
			line, err := r.ReadString('\n')
			if err != nil {
				return
			}
			line = strings.TrimRight(line, "\r\n")
			if line == "" {
				break
			}
			if i := strings.Index(line, ":"); i > 0 && strings.EqualFold(line[:i], "Content-Length") {
				n, _ = strconv.Atoi(strings.TrimSpace(line[i+1:]))
			}
		}
		if n < 0 {
			return
		}
		body := make([]byte, n)
		if _, err := io.ReadFull(r, body); err != nil {
			return
		}
		var m wireMsg
		if err := json.Unmarshal(body, &m); err != nil {
			s.jlog("<<BAD", body)
			continue
		}
		s.mu.Lock()
		s.clock++
		clk := s.clock
		if m.Method == "" && m.ID != nil {
			var id int
			json.Unmarshal(*m.ID, &id)
			ch := s.pending[id]
			delete(s.pending, id)
			s.mu.Unlock()
			s.jlog(fmt.Sprintf("<<%d", clk), body)
			if ch != nil {
				ch <- Reply{Result: m.Result, Err: m.Error, RecvAt: clk}
			}
			continue
		}
		if m.Method == "textDocument/publishDiagnostics" {
			var p struct {
				URI         string `json:"uri"`
				Diagnostics []Diag `json:"diagnostics"`
			}
			json.Unmarshal(m.Params, &p)
			for i := range p.Diagnostics {
				p.Diagnostics[i].fill()
			}
			s.diags[p.URI] = p.Diagnostics
			s.pubs++
			if s.KeepPub {
				s.pubLog = append(s.pubLog, PubEvent{clk, p.URI, p.Diagnostics})
			}
		} else {
			s.otherNtf[m.Method]++
		}
		s.mu.Unlock()
		s.jlog(fmt.Sprintf("<<%d", clk), body)
	}
}

func (s *Server) jlog(tag string, body []byte) {
	s.jmu.Lock()
	if s.journal != nil {
		if len(body) > 4000 && !strings.HasPrefix(tag, ">>") {
			fmt.Fprintf(s.journal, "%s %s...(%d bytes)\n", tag, body[:4000], len(body))
		} else {
			fmt.Fprintf(s.journal, "%s %s\n", tag, body)
		}
	}
	s.jmu.Unlock()
}

func (s *Server) send(m interface{}) (int64, error) {
	body, err := json.Marshal(m)
	if err != nil {
		return 0, err
	}
	s.wmu.Lock()
	defer s.wmu.Unlock()
	s.mu.Lock()
	s.clock++
	clk := s.clock
	dead := s.dead
	s.Sent++
	s.mu.Unlock()
	if dead {
		return clk, ErrDead
	}
	s.jlog(fmt.Sprintf(">>%d", clk), body)
	var buf bytes.Buffer
	fmt.Fprintf(&buf, "Content-Length: %d\r\n\r\n", len(body))
	buf.Write(body)
	if _, err := s.stdin.Write(buf.Bytes()); err != nil {
		return clk, ErrDead
	}
	return clk, nil
}

// Notify sends a notification.
func (s *Server) Notify(method string, params interface{}) error {
	_, err := s.send(map[string]interface{}{"jsonrpc": "2.0", "method": method, "params": params})
	return err
}

type Pending struct {
	ID     int
	Method string
	SentAt int64
	ch     chan Reply
	s      *Server
	cpu0   float64
}

// Send issues a request without waiting for the answer.
func (s *Server) Send(method string, params interface{}) (*Pending, error) {
	s.mu.Lock()
	s.nextID++
	id := s.nextID
	ch := make(chan Reply, 1)
	s.pending[id] = ch
	s.Requests++
	s.mu.Unlock()
	p := &Pending{ID: id, Method: method, ch: ch, s: s, cpu0: s.cpuSeconds()}
	clk, err := s.send(map[string]interface{}{"jsonrpc": "2.0", "id": id, "method": method, "params": params})
	p.SentAt = clk
	if err != nil {
		return p, err
	}
	return p, nil
}

// CPU budget (seconds of server CPU spent while a request is unanswered) after which a hang is declared,
// and the blocked-without-CPU wall limit. Both far above the observed per-request cost (<1 ms..1 s).
var (
	hangCPUBudget  = 20.0
	blockedWallSec = 90.0
	maxWallSec     = 600.0
)

// Wait blocks until the answer arrives; it applies the watchdog policy of DESIGN C01.
func (p *Pending) Wait() (Reply, error) {
	start := time.Now()
	tick := time.NewTicker(500 * time.Millisecond)
	defer tick.Stop()
	// the budget runs from the moment the client starts waiting for this particular answer: with
	// pipelined requests the CPU spent on earlier requests must not be charged to this one
	p.cpu0 = p.s.cpuSeconds()
	lastCPU := p.cpu0
	lastProgress := time.Now()
	for {
		select {
		case r, ok := <-p.ch:
			if !ok {
				return Reply{}, ErrDead
			}
			return r, nil
		case <-tick.C:
			cpu := p.s.cpuSeconds()
			if cpu-p.cpu0 > hangCPUBudget {
				return Reply{}, ErrHang
			}
			if cpu-lastCPU > 0.05 {
				lastCPU = cpu
				lastProgress = time.Now()
			}
			if time.Since(lastProgress).Seconds() > blockedWallSec {
				return Reply{}, ErrBlocked
			}
			if time.Since(start).Seconds() > maxWallSec {
				return Reply{}, ErrSlow
			}
		}
	}
}

// Request sends a request and waits for its answer.
func (s *Server) Request(method string, params interface{}) (Reply, error) {
	p, err := s.Send(method, params)
	if err != nil {
		return Reply{}, err
	}
	return p.Wait()
}

// Fence returns when every earlier notification has been fully processed (and its pushes received).
func (s *Server) Fence() error {
	r, err := s.Request("verif/sync", map[string]interface{}{})
	if err != nil {
		return err
	}
	if r.Err == nil {
		return fmt.Errorf("fence: expected MethodNotFound, got result %s", r.Result)
	}
	return nil
}

func (s *Server) cpuSeconds() float64 {
	if s.cmd == nil || s.cmd.Process == nil {
		return 0
	}
	b, err := os.ReadFile(fmt.Sprintf("/proc/%d/stat", s.cmd.Process.Pid))
	if err != nil {
		return 0
	}
	i := bytes.LastIndexByte(b, ')')
	if i < 0 {
		return 0
	}
	f := strings.Fields(string(b[i+1:]))
	if len(f) < 14 {
		return 0
	}
	ut, _ := strconv.ParseFloat(f[11], 64)
	st, _ := strconv.ParseFloat(f[12], 64)
	return (ut + st) / 100.0
}

// Alive reports whether the server process is still running and reading.
func (s *Server) Alive() bool {
	s.mu.Lock()
	defer s.mu.Unlock()
	return !s.dead
}

// View returns a copy of the client view (last publishDiagnostics per URI; empty lists dropped).
func (s *Server) View() map[string][]Diag {
	s.mu.Lock()
	defer s.mu.Unlock()
	v := map[string][]Diag{}
	for u, d := range s.diags {
		if len(d) > 0 {
			v[u] = append([]Diag(nil), d...)
		}
	}
	return v
}

func (s *Server) Pubs() int {
	s.mu.Lock()
	defer s.mu.Unlock()
	return s.pubs
}

func (s *Server) PubLog() []PubEvent {
	s.mu.Lock()
	defer s.mu.Unlock()
	return append([]PubEvent(nil), s.pubLog...)
}

// DocText asks hook H1 for the server's cached bytes of an open document.
func (s *Server) DocText(uri string) ([]byte, bool, error) {
	s.ctlMu.Lock()
	defer s.ctlMu.Unlock()
	if !s.Alive() {
		return nil, false, ErrDead
	}
	type res struct {
		b     []byte
		found bool
		err   error
	}
	ch := make(chan res, 1)
	go func() {
		if _, err := fmt.Fprintf(s.ctlW, "doctext %s\n", uri); err != nil {
			ch <- res{nil, false, err}
			return
		}
		line, err := s.ctlR.ReadString('\n')
		if err != nil {
			ch <- res{nil, false, err}
			return
		}
		line = strings.TrimSpace(line)
		if line == "missing" {
			ch <- res{nil, false, nil}
			return
		}
		if strings.HasPrefix(line, "found ") {
			n, _ := strconv.Atoi(line[6:])
			b := make([]byte, n)
			if _, err := io.ReadFull(s.ctlR, b); err != nil {
				ch <- res{nil, false, err}
				return
			}
			ch <- res{b, true, nil}
			return
		}
		ch <- res{nil, false, fmt.Errorf("hook reply %q", line)}
	}()
	select {
	case r := <-ch:
		return r.b, r.found, r.err
	case <-s.deadCh:
		return nil, false, ErrDead
	case <-time.After(120 * time.Second):
		return nil, false, ErrSlow
	}
}

// Stderr returns up to max bytes of the head and tail of the server's stderr.
func (s *Server) Stderr(max int) string {
	b, err := os.ReadFile(s.StderrPath)
	if err != nil {
		return ""
	}
	if len(b) > max {
		return string(b[:max/2]) + "\n...\n" + string(b[len(b)-max/2:])
	}
	return string(b)
}

// StderrHead reads only the first max bytes (stack-overflow dumps are huge).
func (s *Server) StderrHead(max int) string {
	f, err := os.Open(s.StderrPath)
	if err != nil {
		return ""
	}
	defer f.Close()
	b := make([]byte, max)
	n, _ := io.ReadFull(f, b)
	return string(b[:n])
}

// Close shuts the server down (closing stdin ends jrpc2's loop) and reports how it ended.
func (s *Server) Close() {
	if s.stdin != nil {
		s.stdin.Close()
	}
	if s.ctlW != nil {
		s.ctlW.Close()
	}
	select {
	case <-s.exited:
	case <-time.After(3 * time.Second):
		s.Kill()
		<-s.exited
	}
	if s.ctlRF != nil {
		s.ctlRF.Close()
	}
	select {
	case <-s.evtDone:
	case <-time.After(2 * time.Second):
	}
	s.jmu.Lock()
	if s.journal != nil {
		s.journal.Close()
		s.journal = nil
	}
	s.jmu.Unlock()
}

func (s *Server) Kill() {
	if s.cmd != nil && s.cmd.Process != nil {
		syscall.Kill(-s.cmd.Process.Pid, syscall.SIGKILL)
	}
}

// Quit sends SIGQUIT for a goroutine dump (hang diagnosis).
func (s *Server) Quit() {
	if s.cmd != nil && s.cmd.Process != nil {
		s.cmd.Process.Signal(syscall.SIGQUIT)
	}
}

// WaitDeath waits up to d for the process to exit.
func (s *Server) WaitDeath(d time.Duration) bool {
	select {
	case <-s.exited:
		return true
	case <-time.After(d):
		return false
	}
}

// CrashInfo classifies how a dead server ended, from its stderr.
type CrashInfo struct {
	Class  string   // panic / fatal / signal / exit
	Detail string   // first line of the panic / fatal error
	Frames []string // top luahelper-lsp frames, no line numbers
}

var frameRe = regexp.MustCompile(`^(luahelper-lsp/[^\s(]+(?:\([^)]*\))?[^\s(]*)\(`)

func (s *Server) Crash() CrashInfo {
	txt := s.StderrHead(1 << 18)
	ci := CrashInfo{Class: "exit"}
	lines := strings.Split(txt, "\n")
	start := -1
	for i, l := range lines {
		if strings.HasPrefix(l, "panic: ") || strings.HasPrefix(l, "fatal error: ") || strings.HasPrefix(l, "runtime: goroutine stack exceeds") {
			start = i
			if strings.HasPrefix(l, "panic: ") {
				ci.Class = "panic"
			} else {
				ci.Class = "fatal"
			}
			ci.Detail = l
			if strings.HasPrefix(l, "runtime: goroutine stack exceeds") {
				ci.Detail = "fatal error: stack overflow"
			}
			break
		}
	}
	if start < 0 {
		for _, l := range lines {
			if strings.HasPrefix(l, "SIG") || strings.Contains(l, "unexpected signal") {
				ci.Class = "signal"
				ci.Detail = l
				break
			}
		}
		if len(lines) > 0 && ci.Detail == "" {
			ci.Detail = strings.TrimSpace(lines[0])
		}
		return ci
	}
	seen := map[string]bool{}
	for _, l := range lines[start:] {
		l = strings.TrimSpace(l)
		if !strings.HasPrefix(l, "luahelper-lsp/") {
			continue
		}
		if i := strings.LastIndex(l, "("); i > 0 {
			l = l[:i]
		}
		if seen[l] {
			continue
		}
		seen[l] = true
		ci.Frames = append(ci.Frames, l)
		if len(ci.Frames) >= 3 {
			break
		}
	}
	return ci
}

func (c CrashInfo) Sig() string {
	d := c.Detail
	// strip addresses / numbers that vary
	d = regexp.MustCompile("`[^`]*`").ReplaceAllString(d, "`?`")
	if i := strings.Index(d, "regexp: Compile("); i >= 0 {
		d = d[:i] + "regexp: Compile(?)"
	}
	d = regexp.MustCompile(`0x[0-9a-f]+`).ReplaceAllString(d, "0x?")
	d = regexp.MustCompile(`\[[-0-9:]+\]`).ReplaceAllString(d, "[?]")
	d = regexp.MustCompile(`\d+`).ReplaceAllString(d, "N")
	if len(d) > 120 {
		d = d[:120]
	}
	return c.Class + "|" + d + "|" + strings.Join(c.Frames, ">")
}

// ---- convenience wrappers ----

func tdPos(uri string, line, ch int) map[string]interface{} {
	return map[string]interface{}{"textDocument": map[string]interface{}{"uri": uri},
		"position": map[string]interface{}{"line": line, "character": ch}}
}

func (s *Server) DidOpen(uri, text string) error {
	return s.Notify("textDocument/didOpen", map[string]interface{}{"textDocument": map[string]interface{}{
		"uri": uri, "languageId": "lua", "version": 1, "text": text}})
}

func (s *Server) DidClose(uri string) error {
	return s.Notify("textDocument/didClose", map[string]interface{}{"textDocument": map[string]interface{}{"uri": uri}})
}

func (s *Server) DidSave(uri, text string) error {
	return s.Notify("textDocument/didSave", map[string]interface{}{"textDocument": map[string]interface{}{"uri": uri}, "text": text})
}

func (s *Server) DidChangeFull(uri string, version int, text string) error {
	return s.Notify("textDocument/didChange", map[string]interface{}{
		"textDocument":   map[string]interface{}{"uri": uri, "version": version},
		"contentChanges": []interface{}{map[string]interface{}{"text": text}}})
}

type Change struct {
	Range       *Range `json:"range,omitempty"`
	RangeLength *int   `json:"rangeLength,omitempty"`
	Text        string `json:"text"`
}

func (s *Server) DidChange(uri string, version int, changes []Change) error {
	return s.Notify("textDocument/didChange", map[string]interface{}{
		"textDocument": map[string]interface{}{"uri": uri, "version": version}, "contentChanges": changes})
}

// Watched sends workspace/didChangeWatchedFiles; typ 1=created 2=changed 3=deleted.
func (s *Server) Watched(evs ...[2]interface{}) error {
	var ch []interface{}
	for _, e := range evs {
		ch = append(ch, map[string]interface{}{"uri": e[0], "type": e[1]})
	}
	return s.Notify("workspace/didChangeWatchedFiles", map[string]interface{}{"changes": ch})
}

func parseLocations(raw json.RawMessage) ([]Location, error) {
	if len(raw) == 0 || string(raw) == "null" {
		return nil, nil
	}
	var locs []Location
	if err := json.Unmarshal(raw, &locs); err == nil {
		return locs, nil
	}
	var one Location
	if err := json.Unmarshal(raw, &one); err == nil {
		return []Location{one}, nil
	}
	return nil, fmt.Errorf("cannot parse locations: %s", raw)
}

func (s *Server) Definition(uri string, line, ch int) ([]Location, *RPCError, error) {
	r, err := s.Request("textDocument/definition", tdPos(uri, line, ch))
	if err != nil {
		return nil, nil, err
	}
	if r.Err != nil {
		return nil, r.Err, nil
	}
	l, err := parseLocations(r.Result)
	return l, nil, err
}

func (s *Server) References(uri string, line, ch int) ([]Location, *RPCError, error) {
	p := tdPos(uri, line, ch)
	p["context"] = map[string]interface{}{"includeDeclaration": true}
	r, err := s.Request("textDocument/references", p)
	if err != nil {
		return nil, nil, err
	}
	if r.Err != nil {
		return nil, r.Err, nil
	}
	l, err := parseLocations(r.Result)
	return l, nil, err
}

type Highlight struct {
	Range Range `json:"range"`
	Kind  int   `json:"kind"`
}

func (s *Server) Highlight(uri string, line, ch int) ([]Highlight, *RPCError, error) {
	r, err := s.Request("textDocument/documentHighlight", tdPos(uri, line, ch))
	if err != nil {
		return nil, nil, err
	}
	if r.Err != nil {
		return nil, r.Err, nil
	}
	var h []Highlight
	if len(r.Result) > 0 && string(r.Result) != "null" {
		if err := json.Unmarshal(r.Result, &h); err != nil {
			return nil, nil, err
		}
	}
	return h, nil, nil
}

type HoverRes struct {
	Contents struct {
		Kind  string `json:"kind"`
		Value string `json:"value"`
	} `json:"contents"`
	Range *Range `json:"range,omitempty"`
}

func (s *Server) Hover(uri string, line, ch int) (*HoverRes, *RPCError, error) {
	r, err := s.Request("textDocument/hover", tdPos(uri, line, ch))
	if err != nil {
		return nil, nil, err
	}
	if r.Err != nil {
		return nil, r.Err, nil
	}
	if len(r.Result) == 0 || string(r.Result) == "null" {
		return nil, nil, nil
	}
	var h HoverRes
	if err := json.Unmarshal(r.Result, &h); err != nil {
		// contents may be another shape; keep raw
		var g struct {
			Contents json.RawMessage `json:"contents"`
		}
		if json.Unmarshal(r.Result, &g) == nil {
			h.Contents.Value = string(g.Contents)
			return &h, nil, nil
		}
		return nil, nil, err
	}
	return &h, nil, nil
}

type TextEdit struct {
	Range   Range  `json:"range"`
	NewText string `json:"newText"`
}

type WorkspaceEdit struct {
	Changes map[string][]TextEdit `json:"changes"`
}

func (s *Server) Rename(uri string, line, ch int, newName string) (*WorkspaceEdit, *RPCError, error) {
	p := tdPos(uri, line, ch)
	p["newName"] = newName
	r, err := s.Request("textDocument/rename", p)
	if err != nil {
		return nil, nil, err
	}
	if r.Err != nil {
		return nil, r.Err, nil
	}
	if len(r.Result) == 0 || string(r.Result) == "null" {
		return nil, nil, nil
	}
	var w WorkspaceEdit
	if err := json.Unmarshal(r.Result, &w); err != nil {
		return nil, nil, err
	}
	return &w, nil, nil
}

type CompletionItem struct {
	Label  string          `json:"label"`
	Kind   int             `json:"kind"`
	Detail string          `json:"detail"`
	Data   json.RawMessage `json:"data,omitempty"`
	Raw    json.RawMessage `json:"-"`
}

func (s *Server) Completion(uri string, line, ch int, triggerKind int, triggerChar string) ([]CompletionItem, *RPCError, error) {
	p := tdPos(uri, line, ch)
	ctx := map[string]interface{}{"triggerKind": triggerKind}
	if triggerChar != "" {
		ctx["triggerCharacter"] = triggerChar
	}
	p["context"] = ctx
	r, err := s.Request("textDocument/completion", p)
	if err != nil {
		return nil, nil, err
	}
	if r.Err != nil {
		return nil, r.Err, nil
	}
	if len(r.Result) == 0 || string(r.Result) == "null" {
		return nil, nil, nil
	}
	var list struct {
		Items []json.RawMessage `json:"items"`
	}
	var raws []json.RawMessage
	if err := json.Unmarshal(r.Result, &list); err == nil && list.Items != nil {
		raws = list.Items
	} else if err := json.Unmarshal(r.Result, &raws); err != nil {
		return nil, nil, fmt.Errorf("completion result: %s", r.Result)
	}
	var items []CompletionItem
	for _, rw := range raws {
		var it CompletionItem
		json.Unmarshal(rw, &it)
		it.Raw = rw
		items = append(items, it)
	}
	return items, nil, nil
}

type DocSymbol struct {
	Name           string      `json:"name"`
	Detail         string      `json:"detail"`
	Kind           int         `json:"kind"`
	Range          Range       `json:"range"`
	SelectionRange Range       `json:"selectionRange"`
	Children       []DocSymbol `json:"children"`
}

func (s *Server) DocumentSymbol(uri string) ([]DocSymbol, *RPCError, error) {
	r, err := s.Request("textDocument/documentSymbol", map[string]interface{}{"textDocument": map[string]interface{}{"uri": uri}})
	if err != nil {
		return nil, nil, err
	}
	if r.Err != nil {
		return nil, r.Err, nil
	}
	var d []DocSymbol
	if len(r.Result) > 0 && string(r.Result) != "null" {
		if err := json.Unmarshal(r.Result, &d); err != nil {
			return nil, nil, fmt.Errorf("documentSymbol: %v: %.200s", err, r.Result)
		}
	}
	return d, nil, nil
}

type SymbolInfo struct {
	Name          string   `json:"name"`
	Kind          int      `json:"kind"`
	Location      Location `json:"location"`
	ContainerName string   `json:"containerName"`
}

func (s *Server) WorkspaceSymbol(q string) ([]SymbolInfo, *RPCError, error) {
	r, err := s.Request("workspace/symbol", map[string]interface{}{"query": q})
	if err != nil {
		return nil, nil, err
	}
	if r.Err != nil {
		return nil, r.Err, nil
	}
	var d []SymbolInfo
	if len(r.Result) > 0 && string(r.Result) != "null" {
		if err := json.Unmarshal(r.Result, &d); err != nil {
			return nil, nil, err
		}
	}
	return d, nil, nil
}
