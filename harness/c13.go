package main

// C13 — hover shows the right symbol and its documentation comment verbatim.
// Monitor: contents.value of textDocument/hover at every use of generated declarations vs the
// declaration and comment the generator planted (bytes must be identical, whatever the script).

import (
	"sort"
	"fmt"
	"regexp"
	"strconv"
	"strings"
)

var c13Scripts = map[string][]string{
	"ascii":    {"plain ascii words", "returns the value", "x y z 123"},
	"latin1":   {"café résumé naïve", "über straße ñandú", "déjà vu à côté"},
	"cyrillic": {"функция возвращает значение", "привет мир", "описание переменной"},
	"greek":    {"συνάρτηση επιστρέφει τιμή", "Ωμέγα άλφα", "περιγραφή"},
	"cjk":      {"返回当前的数值", "中文注释说明", "変数の説明です"},
	"hangul":   {"값을 반환합니다", "한글 주석", "변수 설명"},
	"astral":   {"emoji 😀 🚀 doc", "math 𝔘𝔫𝔦 text", "😀"},
	"mixed":    {"mixed é я 中 한 😀 end", "a é b я c 中", "ß Ω 文 😀"},
	// characters that mean something to a formatter, a template, a regular expression or a markup renderer
	"punct": {"50% of the budget, 75%, 100%", "uses the %s and %d placeholders %v %", "100%% sure %5.2f %x", "literal \\n and \\t and \\ backslashes", "<b>tag</b> &amp; *star* _under_ `tick`",
		"$1 {0} #{x} ${y} ~tilde~ ^caret", "[link](url) | pipe || !bang?", "quote \" and ' and (paren] {brace", "a.*b+c? [a-z] \\d{2,}"},
}

type c13Decl struct {
	Name     string
	Kind     string // local-number local-string local-table global global-function local-function member-dot member-colon
	Params   []string
	Literal  string   // literal value as written ("" if none asserted)
	Float    string   // a float literal as written ("" if none): the label shows a numeral of the same value
	Local    bool
	Comment  []string // expected documentation lines (already without markers); nil = none
	Place    string   // trailing / block1..3 / both / none / detached
	Script   string
	Marker   string
	Adjacent bool
	Anno     bool // ---@param lines for a leading run of the parameters stand directly above the function
	DocOpen  bool // documentation not asserted (an alias without a comment of its own may show the comment of what it names)
	XLine    int // line / column of a use in the companion file (another document); -1 = none
	XCol     int
	UseLines []int // lines where the name is used (0-based)
	UseCols  []int
	DeclLine int
	DeclCol  int
}

func c13GenFile(r *Rng, idx int) (string, []c13Decl) {
	var lines []string
	var decls []c13Decl
	scripts := []string{"ascii", "latin1", "cyrillic", "greek", "cjk", "hangul", "astral", "mixed", "punct"}
	markers := []string{"-- ", "--- ", "-- * ", "--", "--  "}
	places := []string{"trailing", "block1", "block2", "block3", "both", "none", "detached"}
	kinds := []string{"local-number", "local-string", "local-table", "global", "global-function", "local-function", "member-dot", "member-colon",
		"local-alias", "global-alias", "member-alias", "inner-local-number"}
	n := r.Range(4, 9)
	libUsed := map[string]bool{}
	lines = append(lines, fmt.Sprintf("local host%d = {}", idx))
	for i := 0; i < n; i++ {
		d := c13Decl{Kind: kinds[r.Intn(len(kinds))], Place: places[r.Intn(len(places))], Script: scripts[r.Intn(len(scripts))], Marker: markers[r.Intn(len(markers))]}
		d.Name = fmt.Sprintf("h%dsym%d", idx, i)
		if (d.Kind == "local-number" || d.Kind == "local-string") && r.Fork(uint64(0x6c6962+i)).Chance(1, 5) {
			// a local named like a library function or module: the hover describes the declaration, not the library
			for _, ln := range r.Fork(uint64(0x6c6963 + i)).Perm(len(c13LibraryNames)) {
				if !libUsed[c13LibraryNames[ln]] {
					d.Name = c13LibraryNames[ln]
					libUsed[d.Name] = true
					break
				}
			}
		}
		txts := c13Scripts[d.Script]
		pick := func() string { return txts[r.Intn(len(txts))] + fmt.Sprintf(" %d", r.Intn(1000)) }
		var block []string
		trailing := ""
		switch d.Place {
		case "trailing":
			trailing = pick()
		case "block1", "block2", "block3":
			k := int(d.Place[5] - '0')
			for j := 0; j < k; j++ {
				block = append(block, pick())
			}
		case "both":
			block = []string{pick()}
			trailing = pick()
		case "detached":
			block = []string{pick()}
		}
		if r.Bool() {
			lines = append(lines, "") // separate from the previous declaration
		} else {
			d.Adjacent = true // directly below the previous declaration (and below its trailing comment, if it has one)
		}
		if d.Kind == "inner-local-number" {
			// a local of a function body that is used on the body's last line, the line of the closing `end`
			lines = append(lines, fmt.Sprintf("local function wrap%d_%d(q)", idx, i))
		}
		redeclared := false
		if (d.Kind == "local-number" || d.Kind == "local-string") && r.Fork(uint64(0x7477696e+i)).Chance(1, 3) {
			// an older declaration of the same name in the same block, with a value and a comment of its own, and a use
			// between the two: the declaration below re-declares the name
			lines = append(lines, fmt.Sprintf("local %s = %d %solder twin %d", d.Name, 900000+i, d.Marker, i), fmt.Sprintf("print(%s)", d.Name), "")
			redeclared = true
		}
		for _, b := range block {
			lines = append(lines, d.Marker+b)
		}
		if d.Place == "detached" {
			lines = append(lines, "") // a blank line: the block must not attach
		}
		var stmt string
		switch d.Kind {
		case "local-number":
			d.Literal = fmt.Sprint(r.Intn(100000))
			d.Local = true
			if rf := r.Fork(uint64(0x666c74 + i)); rf.Chance(1, 3) {
				// a float literal: up to 17 significant digits, values around 2^24 and 2^53, exponents beyond the single-precision range
				d.Float = rf.Pick([]string{"3.14159265358979", "123456.789", "16777217.0", "0.333333333333", "1e40", "1e-40", "9007199254740993.0", "0.1", "2.5e-3", "1.7976931348623157e308",
					fmt.Sprintf("%d.%d", rf.Intn(100000), 1+rf.Intn(99999999)), fmt.Sprintf("0.%d%d", 1+rf.Intn(999999), 1+rf.Intn(99999999)), fmt.Sprintf("%d.5e%d", 1+rf.Intn(9999999), rf.Intn(60)-30)})
				d.Literal = ""
				stmt = fmt.Sprintf("local %s = %s", d.Name, d.Float)
				break
			}
			stmt = fmt.Sprintf("local %s = %s", d.Name, d.Literal)
		case "local-string":
			d.Literal = fmt.Sprintf("\"v%d %s\"", r.Intn(100), r.Pick([]string{"abc", "é", "中", "x y"}))
			d.Local = true
			stmt = fmt.Sprintf("local %s = %s", d.Name, d.Literal)
		case "inner-local-number":
			d.Literal = fmt.Sprint(r.Intn(100000))
			d.Local = true
			stmt = fmt.Sprintf("  local %s = %s", d.Name, d.Literal)
		case "local-table":
			d.Local = true
			stmt = fmt.Sprintf("local %s = { fieldA = 1, fieldB = \"b\" }", d.Name)
		case "global":
			d.Literal = fmt.Sprint(r.Intn(100000))
			stmt = fmt.Sprintf("%s = %s", d.Name, d.Literal)
		case "global-function":
			d.Params = []string{fmt.Sprintf("pa%d", i), fmt.Sprintf("pb%d", i)}[:r.Range(0, 2)]
			stmt = fmt.Sprintf("function %s(%s) return 1 end", d.Name, strings.Join(d.Params, ", "))
		case "local-function":
			d.Local = true
			d.Params = []string{fmt.Sprintf("pa%d", i), fmt.Sprintf("pb%d", i), fmt.Sprintf("pc%d", i)}[:r.Range(0, 3)]
			stmt = fmt.Sprintf("local function %s(%s) return 1 end", d.Name, strings.Join(d.Params, ", "))
		case "local-alias", "global-alias", "member-alias":
			// the value is a reference to an earlier declaration (which has a comment of its own or not)
			ref := fmt.Sprintf("host%d", idx)
			if len(decls) > 0 {
				e := decls[r.Intn(len(decls))]
				ref = e.Name
				if strings.HasPrefix(e.Kind, "member-") {
					ref = fmt.Sprintf("host%d.%s", idx, e.Name)
				}
			}
			switch d.Kind {
			case "local-alias":
				d.Local = true
				stmt = fmt.Sprintf("local %s = %s", d.Name, ref)
			case "global-alias":
				stmt = fmt.Sprintf("%s = %s", d.Name, ref)
			default:
				stmt = fmt.Sprintf("host%d.%s = %s", idx, d.Name, ref)
			}
		case "member-dot":
			d.Params = []string{fmt.Sprintf("pa%d", i)}
			stmt = fmt.Sprintf("function host%d.%s(%s) return 1 end", idx, d.Name, strings.Join(d.Params, ", "))
		case "member-colon":
			d.Params = []string{fmt.Sprintf("pa%d", i), fmt.Sprintf("pb%d", i)}
			stmt = fmt.Sprintf("function host%d:%s(%s) return 1 end", idx, d.Name, strings.Join(d.Params, ", "))
		}
		if redeclared {
			d.Kind += "-redeclared"
		}
		annotated := false
		if len(d.Params) >= 2 && r.Fork(uint64(0x616e6e+i)).Chance(1, 2) {
			// ---@param lines for a leading run of the parameters, directly above the function: the label still lists every
			// parameter in order, each separated from the next (how the annotation lines show in the documentation part
			// is not asserted)
			for _, pn := range d.Params[:r.Fork(uint64(0x616e6f+i)).Range(1, len(d.Params)-1)] {
				lines = append(lines, fmt.Sprintf("---@param %s %s", pn, r.Pick([]string{"number", "string", "table"})))
			}
			annotated = true
		}
		d.DeclLine = len(lines)
		d.DeclCol = strings.Index(stmt, d.Name)
		if trailing != "" {
			stmt += " " + d.Marker + trailing
		}
		lines = append(lines, stmt)
		switch {
		case trailing != "":
			d.Comment = []string{trailing}
		case d.Place == "detached" || d.Place == "none":
			d.Comment = nil
		default:
			d.Comment = block
		}
		if strings.HasSuffix(d.Kind, "-alias") && d.Comment == nil {
			d.DocOpen = true
		}
		if annotated {
			d.DocOpen = true
			d.Anno = true
		}
		if d.Kind == "inner-local-number" {
			ret := fmt.Sprintf("  return %s + q end", d.Name)
			d.UseLines = append(d.UseLines, len(lines))
			d.UseCols = append(d.UseCols, strings.Index(ret, d.Name)+1)
			lines = append(lines, ret, fmt.Sprintf("print(wrap%d_%d(1))", idx, i))
		}
		decls = append(decls, d)
	}
	lines = append(lines, "")
	// uses, one per line
	for i := range decls {
		d := &decls[i]
		if d.Kind == "inner-local-number" {
			continue // its use is inside the function
		}
		var use string
		switch d.Kind {
		case "member-alias":
			use = fmt.Sprintf("print(host%d.%s)", idx, d.Name)
		case "member-dot":
			use = fmt.Sprintf("print(host%d.%s(1))", idx, d.Name)
		case "member-colon":
			use = fmt.Sprintf("print(host%d:%s(1))", idx, d.Name)
		case "global-function", "local-function":
			use = fmt.Sprintf("print(%s(1, 2, 3))", d.Name)
		default:
			use = fmt.Sprintf("print(%s)", d.Name)
		}
		d.UseLines = append(d.UseLines, len(lines))
		d.UseCols = append(d.UseCols, strings.Index(use, d.Name)+1)
		lines = append(lines, use)
	}
	return strings.Join(lines, "\n") + "\n", decls
}

var c13LeadRe = regexp.MustCompile(`^[-*\s]+`)

func c13NormLines(s string) []string {
	var out []string
	for _, l := range strings.Split(s, "\n") {
		l = strings.TrimRight(l, " \t\r")
		l = c13LeadRe.ReplaceAllString(l, "")
		if l != "" {
			out = append(out, l)
		}
	}
	return out
}

// c13Split separates label and documentation of a hover value.
func c13Split(v string) (label, doc string) {
	label = hoverLabel(v)
	i := strings.Index(v, "\n```\n---\n")
	if i < 0 {
		return label, ""
	}
	doc = v[i+len("\n```\n---\n"):]
	// the trailing file name follows "\n\r"
	if j := strings.LastIndex(doc, "\n\r"); j >= 0 {
		doc = doc[:j]
	}
	return label, doc
}

func runC13(c *Ctx) {
	nFiles := c.N(2500, 150000)
	root := NewRng(c.Seed).Fork(13)
	parallel(nFiles/5+1, 14, func(bi int) {
		files := map[string]string{}
		decls := map[string][]c13Decl{}
		for k := 0; k < 5; k++ {
			fi := bi*5 + k
			if fi >= nFiles {
				break
			}
			r := root.Fork(uint64(fi))
			rel := fmt.Sprintf("hov%d.lua", fi)
			txt, ds := c13GenFile(r, fi)
			if pr := RParse([]byte(txt)); !pr.Valid() {
				panic("harness: C13 generator produced invalid program: " + pr.Err + "\n" + txt)
			}
			// a companion document that uses the globals of this file; every one of its lines carries a trailing comment of
			// its own, so a comment looked up by line number in the wrong document shows up as foreign text
			var xl []string
			nLines := strings.Count(txt, "\n") + 2
			for li := 0; li < nLines; li++ {
				xl = append(xl, fmt.Sprintf("local xf%d_%d = %d -- companion note %d", fi, li, li, li))
			}
			for di := range ds {
				ds[di].XLine = -1
				if ds[di].Kind == "global" || ds[di].Kind == "global-function" || ds[di].Kind == "global-alias" {
					at := r.Intn(len(xl) + 1)
					use := fmt.Sprintf("print(%s) -- companion use %d", ds[di].Name, di)
					xl = append(xl[:at], append([]string{use}, xl[at:]...)...)
					for dj := range ds[:di] {
						if ds[dj].XLine >= at {
							ds[dj].XLine++
						}
					}
					ds[di].XLine = at
					ds[di].XCol = len("print(") + 1
				}
			}
			files[rel] = txt
			decls[rel] = ds
			files[fmt.Sprintf("hov%dx.lua", fi)] = strings.Join(xl, "\n") + "\n"
		}
		if len(files) == 0 {
			return
		}
		ws := c.NewWorkspace(files)
		defer ws.Remove()
		srv, err := StartServer(ServerOpts{Root: ws.Root, Tag: fmt.Sprintf("c13b%d", bi)})
		if err != nil {
			c.Inconclusive("server failed (C01's business): " + err.Error())
			if srv != nil {
				srv.Close()
			}
			return
		}
		defer srv.Close()
		for rel, txt := range files {
			srv.DidOpen(ws.URI(rel), txt)
		}
		if srv.Fence() != nil {
			c.Inconclusive("server died on open")
			return
		}
		dead := false
		checkDecls := func(rel string, ds []c13Decl, dirty bool) {
			c.Eval(1)
			for _, d := range ds {
				if dirty && !d.Local && !strings.HasPrefix(d.Kind, "member-") {
					// globals of a buffer with unsaved edits are served from the tables of the last saved state (by design)
					c.Count("dont_care_global_in_unsaved_buffer", 1)
					continue
				}
				positions := [][2]int{{d.DeclLine, d.DeclCol + 1}}
				for i := range d.UseLines {
					positions = append(positions, [2]int{d.UseLines[i], d.UseCols[i]})
				}
				if d.XLine >= 0 {
					positions = append(positions, [2]int{d.XLine, d.XCol})
				}
				for pi, pos := range positions {
					qrel := rel
					if d.XLine >= 0 && pi == len(positions)-1 {
						qrel = strings.TrimSuffix(rel, ".lua") + "x.lua"
					}
					hv, _, err := srv.Hover(ws.URI(qrel), pos[0], pos[1])
					if err != nil {
						c.Inconclusive("server stopped answering (C01's business)")
						dead = true
						return
					}
					c.Count("hover_requests", 1)
					where := "use"
					if pi == 0 {
						where = "declaration"
					} else if qrel != rel {
						where = "use-in-another-file"
					}
					cls := fmt.Sprintf("%s|%s|%s", d.Kind, d.Place, where)
					if dirty {
						cls += "|unsaved-edit"
					}
					if d.Anno {
						cls += "|with-param-annotations"
					}
					witness := map[string]interface{}{"file": files[rel], "decl": d, "position": pos, "unsaved_edit": dirty}
					if hv == nil || strings.TrimSpace(hv.Contents.Value) == "" {
						c.Report("hover-empty|"+cls, fmt.Sprintf("hover on %s (%s) at %s:%v returns nothing", d.Name, d.Kind, rel, pos), witness)
						continue
					}
					witness["hover"] = hv.Contents.Value
					label, doc := c13Split(hv.Contents.Value)
					c.Distinct(files[rel] + fmt.Sprint(pos))
					// label
					if !strings.Contains(label, d.Name) {
						c.Report("label-misses-identifier|"+cls, fmt.Sprintf("hover label %q does not contain %s", truncate(label, 120), d.Name), witness)
					}
					saysLocal := strings.HasPrefix(strings.TrimSpace(label), "local ")
					if saysLocal != d.Local {
						c.Report(fmt.Sprintf("label-local-mismatch|%s|declared-local=%v", cls, d.Local), fmt.Sprintf("hover label %q for %s declared local=%v", truncate(label, 120), d.Name, d.Local), witness)
					}
					if d.Literal != "" && !strings.Contains(label, d.Literal) {
						c.Report("label-misses-literal|"+cls, fmt.Sprintf("hover label %q does not show the literal %s", truncate(label, 160), d.Literal), witness)
					}
					if d.Float != "" {
						// the label shows the value in a notation of the tool's choosing: it must be the value of the literal
						want, _ := strconv.ParseFloat(d.Float, 64)
						m := regexp.MustCompile(`=\s*([-+]?(?:[0-9.]+(?:[eE][-+]?[0-9]+)?|Inf|NaN))`).FindStringSubmatch(label)
						c.Count("float_literal_labels_checked", 1)
						if got, err := strconv.ParseFloat(strings.TrimPrefix(func() string {
							if m == nil {
								return "x"
							}
							return m[1]
						}(), "+"), 64); m == nil || err != nil || got != want {
							c.Report("label-shows-another-number|"+cls, fmt.Sprintf("hover label %q for a variable declared with the literal %s does not show a numeral of that value", truncate(label, 160), d.Float), witness)
						}
					}
					if len(d.Params) > 0 {
						re := regexp.MustCompile(`\b` + strings.Join(d.Params, `\b[^,()]*,\s*\b`) + `\b`)
						if !re.MatchString(label) {
							c.Report("label-misses-parameters|"+cls, fmt.Sprintf("hover label %q does not show the parameters %v in order", truncate(label, 160), d.Params), witness)
						}
					}
					c.Count("labels_checked", 1)
					// documentation
					got := c13NormLines(doc)
					var want []string
					for _, l := range d.Comment {
						want = append(want, c13NormLines(l)...)
					}
					if d.DocOpen {
						c.Count("dont_care_alias_without_own_comment", 1)
						continue
					}
					c.Count("documentation_compared", 1)
					if strings.Join(got, "\n") != strings.Join(want, "\n") {
						kind := "differs"
						if len(want) == 0 {
							kind = "comment-attached-that-should-not"
						} else if len(got) == 0 {
							kind = "comment-missing"
						} else if len(got) == len(want) {
							kind = "bytes-altered"
						}
						c.Report(fmt.Sprintf("documentation|%s|%s|script:%s|marker:%q", kind, cls, d.Script, d.Marker),
							fmt.Sprintf("hover on %s: documentation %q, expected %q", d.Name, truncate(strings.Join(got, " / "), 200), truncate(strings.Join(want, " / "), 200)), witness)
					}
				}
			}
		}
		var rels []string
		for rel := range decls {
			rels = append(rels, rel)
		}
		sort.Strings(rels)
		for _, rel := range rels {
			checkDecls(rel, decls[rel], false)
			if dead {
				return
			}
		}
		// an unsaved edit: the first document of the batch is replaced, in the editor only, by another generated text
		// (other comments, other lines); hover must describe the buffer, not the file on disk
		if len(rels) > 0 {
			rel := rels[0]
			var fi int
			fmt.Sscanf(rel, "hov%d.lua", &fi)
			txt2, ds2 := c13GenFile(root.Fork(uint64(fi)).Fork(0xd1), fi)
			for di := range ds2 {
				ds2[di].XLine = -1
			}
			if pr := RParse([]byte(txt2)); pr.Valid() {
				srv.DidChangeFull(ws.URI(rel), 2, txt2)
				if srv.Fence() != nil {
					c.Inconclusive("server died on an unsaved edit (C01's business)")
					return
				}
				files[rel] = txt2
				c.Count("unsaved_edit_documents", 1)
				checkDecls(rel, ds2, true)
			}
		}
		if bi == 0 {
			for rel := range files {
				c.Sample(map[string]interface{}{"file": files[rel]})
				break
			}
		}
	})
	c.Finish("generated declarations (local number/string/table, global, global function, local function, table member functions t.f / t:m) x comment placement "+
		"(trailing, block of 1-3 lines above, both, none, block detached by a blank line; separated from the previous declaration by a blank line or directly below it) x script (ASCII, Latin-1, Cyrillic, Greek, CJK, Hangul, astral, mixed) x marker "+
		"(--, ---, -- *); hover at the declaration, at a use, and (globals) at a use in a companion document whose own lines all carry comments, must show a label with the identifier, `local` iff declared local, the literal as written, parameters "+
		"in order, and as documentation exactly the attached comment's bytes (after the tool's documented marker clean-up). distinct_nontrivial = distinct (file, position) hovered", 200)
}

// names of library functions and modules a program may use for its own locals
var c13LibraryNames = []string{"next", "file", "type", "select", "table", "string", "os", "io", "math", "debug", "error", "load", "pairs", "ipairs", "tostring", "unpack", "coroutine", "package", "utf8"}
