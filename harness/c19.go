package main

// C19 — symbol outlines list every declaration at its real place, findable by name.
// Monitor: textDocument/documentSymbol and workspace/symbol answers vs the declaration list the
// generator planted (cross-checked with R-parse token positions).

import (
	"fmt"
	"sort"
	"strings"
)

type c19Decl struct {
	Name    string // simple name searched for
	Kind    string // class of declaration (for signatures)
	Tok     *Tok   // declaring identifier
	WsQuery bool   // must be findable through workspace/symbol (globals and functions)
}

type c19File struct {
	Rel   string
	Text  string
	Decls []c19Decl
}

// c19GenFile: force > 0 fixes the number of statements (files with several hundred symbols).
func c19GenFile(r *Rng, idx int, force int) c19File {
	pre := fmt.Sprintf("m%d", idx)
	var sb strings.Builder
	type want struct {
		name, kind string
		ws         bool
	}
	var wants []want
	n := 0
	nm := func(base string) string { n++; return fmt.Sprintf("%s%s%d", pre, base, n) }
	nStat := r.Range(6, 16)
	if r.Chance(1, 4) {
		nStat = r.Range(30, 90) // a long file: declarations far down (line numbers beyond typical column numbers)
	}
	if force > 0 {
		nStat = force
	}
	var tables []string // global tables that can get members
	var ltables []string
	for i := 0; i < nStat; i++ {
		switch r.Intn(24) {
		case 23:
			// a function value that starts on the line after its name (long names, wrapped by a formatter)
			v := nm("WrappedFn")
			switch r.Intn(4) {
			case 0:
				sb.WriteString(fmt.Sprintf("%s =\n  function(a)\n    return a\n  end\n", v))
				wants = append(wants, want{v, "global-function-by-assignment-wrapped", true})
			case 1:
				sb.WriteString(fmt.Sprintf("local %s =\n  function(a) return a end\n", v))
				wants = append(wants, want{v, "local-function-by-assignment-wrapped", true})
			case 2:
				t, m2 := nm("WrapTab"), nm("a_rather_long_member_name_for_a_callback")
				sb.WriteString(fmt.Sprintf("%s = {}\n%s.%s =\n  function() end\n", t, t, m2))
				tables = append(tables, t)
				wants = append(wants, want{t, "global-table", true}, want{m2, "function-member-by-assignment-wrapped", true})
			default:
				t, m2 := nm("WrapCons"), nm("wrappedmemfn")
				sb.WriteString(fmt.Sprintf("%s = {\n  %s =\n    function(x) return x end,\n}\n", t, m2))
				tables = append(tables, t)
				wants = append(wants, want{t, "global-table", true}, want{m2, "function-member-in-constructor-wrapped", true})
			}
		case 22:
			// compact formatting: a table and the members added to it on one line
			v, f1, f2 := nm("OneLineTab"), nm("onelinefn"), nm("onelinefn")
			local := ""
			kind := "global-table"
			if r.Chance(1, 3) {
				local, kind = "local ", "top-level-local-table"
			}
			sep := r.Pick([]string{" ", "; ", ";"})
			switch r.Intn(3) {
			case 0:
				sb.WriteString(fmt.Sprintf("%s%s = {}%sfunction %s.%s(s) return s end%sfunction %s:%s(s) return s end\n", local, v, sep, v, f1, sep, v, f2))
			case 1:
				sb.WriteString(fmt.Sprintf("%s%s = {}%s%s.%s = function(s) return s end%sfunction %s.%s() end\n", local, v, sep, v, f1, sep, v, f2))
			default:
				sb.WriteString(fmt.Sprintf("%s%s = { depth = %d }%sfunction %s:%s() end function %s.%s(a, b) return a end\n", local, v, i, sep, v, f1, v, f2))
			}
			if local == "" {
				tables = append(tables, v)
			} else {
				ltables = append(ltables, v)
			}
			wants = append(wants, want{v, kind, local == ""}, want{f1, "function-member-added-on-the-line-of-its-table", true}, want{f2, "function-member-added-on-the-line-of-its-table", true})
		case 0:
			v := nm("Loc")
			sb.WriteString(fmt.Sprintf("local %s = %d\n", v, i))
			wants = append(wants, want{v, "top-level-local", false})
		case 1:
			v := nm("Glob")
			sb.WriteString(fmt.Sprintf("%s = \"g%d\"\n", v, i))
			wants = append(wants, want{v, "global-variable", true})
		case 2:
			v := nm("GFunc")
			sb.WriteString(fmt.Sprintf("function %s(a, b)\n  return a\nend\n", v))
			wants = append(wants, want{v, "global-function", true})
		case 3:
			v := nm("LFunc")
			sb.WriteString(fmt.Sprintf("local function %s(c)\n  return c\nend\n", v))
			wants = append(wants, want{v, "local-function", true})
		case 4:
			v := nm("GTab")
			m1, m2 := nm("mem"), nm("memfn")
			sb.WriteString(fmt.Sprintf("%s = { %s = 1, %s = function(x) return x end }\n", v, m1, m2))
			tables = append(tables, v)
			wants = append(wants, want{v, "global-table", true}, want{m2, "function-member-in-constructor", true})
		case 5:
			v := nm("LTab")
			m2 := nm("lmemfn")
			sb.WriteString(fmt.Sprintf("local %s = {\n  %s = function(y)\n    return y\n  end,\n}\n", v, m2))
			ltables = append(ltables, v)
			wants = append(wants, want{v, "top-level-local-table", false}, want{m2, "function-member-in-constructor", true})
		case 6:
			if len(tables) > 0 {
				t := tables[r.Intn(len(tables))]
				f := nm("dotfn")
				sb.WriteString(fmt.Sprintf("function %s.%s(p)\n  return p\nend\n", t, f))
				wants = append(wants, want{f, "function-t.f", true})
			}
		case 7:
			if len(tables) > 0 {
				t := tables[r.Intn(len(tables))]
				f := nm("colonfn")
				sb.WriteString(fmt.Sprintf("function %s:%s(q)\n  return self, q\nend\n", t, f))
				wants = append(wants, want{f, "function-t:m", true})
			}
		case 8:
			if len(ltables) > 0 {
				t := ltables[r.Intn(len(ltables))]
				f := nm("ldotfn")
				sb.WriteString(fmt.Sprintf("function %s.%s()\nend\n", t, f))
				wants = append(wants, want{f, "function-localtable.f", true})
			}
		case 9:
			if len(tables) > 0 {
				t := tables[r.Intn(len(tables))]
				mid, f := nm("mid"), nm("deepfn")
				sb.WriteString(fmt.Sprintf("%s.%s = {}\nfunction %s.%s.%s()\nend\n", t, mid, t, mid, f))
				wants = append(wants, want{f, "function-a.b.c", true})
			}
		case 10:
			v := nm("AssignedFn")
			sb.WriteString(fmt.Sprintf("%s = function(z)\n  return z\nend\n", v))
			wants = append(wants, want{v, "global-function-by-assignment", true})
		case 11:
			v := nm("LocFnVal")
			sb.WriteString(fmt.Sprintf("local %s = function(w)\n  return w\nend\n", v))
			wants = append(wants, want{v, "local-function-by-assignment", true})
		case 12:
			v, g := nm("inner"), nm("InnerGlob")
			sb.WriteString(fmt.Sprintf("do\n  local %s = 1\n  %s = %s\nend\n", v, g, v))
			wants = append(wants, want{g, "global-assigned-in-block", true})
		case 21:
			// control statements at chunk level with several branches, between the declarations (the scope bookkeeping of
			// the chunk must come out even)
			v := nm("cond")
			switch r.Intn(3) {
			case 0:
				sb.WriteString(fmt.Sprintf("local %s = %d\nif %s > 1 then\n  print(1)\nelse\n  print(2)\nend\n", v, i, v))
			case 1:
				sb.WriteString(fmt.Sprintf("local %s = %d\nif %s == 1 then\n  print(1)\nelseif %s == 2 then\n  print(2)\nelseif %s == 3 then\n  print(3)\nelse\n  print(4)\nend\n", v, i, v, v, v))
			default:
				sb.WriteString(fmt.Sprintf("local %s = %d\nif %s then print(1) elseif not %s then print(2) end\n", v, i, v, v))
			}
			wants = append(wants, want{v, "top-level-local", false})
		case 20:
			// a local declared without a value and assigned a table constructor later
			v, m2 := nm("FwdTab"), nm("fwdmemfn")
			sb.WriteString(fmt.Sprintf("local %s\n%s = {\n  %s = function(z)\n    return z\n  end,\n  depth = %d,\n}\nprint(%s)\n", v, v, m2, i, v))
			wants = append(wants, want{v, "top-level-local", false}, want{m2, "function-member-in-constructor-assigned-to-forward-declared-local", true})
		case 19:
			// a table declared through `or` (X = X or { ... }): its keyed fields are members like those of a plain constructor
			m2 := nm("ormemfn")
			if r.Bool() {
				v := nm("GOrTab")
				sb.WriteString(fmt.Sprintf("%s = %s or { %s = function(x) return x end, level = %d }\n", v, v, m2, i))
				tables = append(tables, v)
				wants = append(wants, want{v, "global-table", true}, want{m2, "function-member-in-constructor-behind-or", true})
			} else {
				v := nm("LOrTab")
				sb.WriteString(fmt.Sprintf("local %s = GNothing or {\n  %s = function(y)\n    return y\n  end,\n}\nprint(%s)\n", v, m2, v))
				wants = append(wants, want{v, "top-level-local-table", false}, want{m2, "function-member-in-constructor-behind-or", true})
			}
		case 18:
			// a local declaration list with Lua 5.4 attributes on names other than the first
			a, b, cc := nm("LstA"), nm("LstB"), nm("LstC")
			switch r.Intn(3) {
			case 0:
				sb.WriteString(fmt.Sprintf("local %s, %s <const> = %d, %d\nprint(%s, %s)\n", a, b, i, i+1, a, b))
				wants = append(wants, want{a, "top-level-local", false}, want{b, "top-level-local-with-attribute", false})
			case 1:
				sb.WriteString(fmt.Sprintf("local %s <const>, %s, %s <close> = %d, %d, nil\nprint(%s, %s, %s)\n", a, b, cc, i, i+1, a, b, cc))
				wants = append(wants, want{a, "top-level-local-with-attribute", false}, want{b, "top-level-local", false}, want{cc, "top-level-local-with-attribute", false})
			default:
				sb.WriteString(fmt.Sprintf("local %s <const> = %d\nprint(%s)\n", a, i, a))
				wants = append(wants, want{a, "top-level-local-with-attribute", false})
			}
		case 17:
			// a function member declared through self inside a colon method, the method on one line or on several
			var tb string
			if len(tables) > 0 && r.Bool() {
				tb = tables[r.Intn(len(tables))]
			} else if len(ltables) > 0 {
				tb = ltables[r.Intn(len(ltables))]
			} else {
				continue
			}
			mt, fn := nm("selfmeth"), nm("selffn")
			if r.Bool() {
				sb.WriteString(fmt.Sprintf("function %s:%s() self.%s = function(q) return q end end\n", tb, mt, fn))
			} else {
				sb.WriteString(fmt.Sprintf("function %s:%s()\n  self.%s = function(q)\n    return q\n  end\nend\n", tb, mt, fn))
			}
			wants = append(wants, want{mt, "function-t:m", true}, want{fn, "function-member-assigned-through-self", true})
		case 16:
			// a function member of a table that is local to a block
			tb, fn := nm("BlkTab"), nm("blkfn")
			switch r.Intn(3) {
			case 0:
				sb.WriteString(fmt.Sprintf("do\n  local %s = {}\n  function %s.%s(a)\n    return a\n  end\n  print(%s)\nend\n", tb, tb, fn, tb))
			case 1:
				sb.WriteString(fmt.Sprintf("if true then\n  local %s = { %s = function(a) return a end }\n  print(%s)\nend\n", tb, fn, tb))
			default:
				sb.WriteString(fmt.Sprintf("local function %s()\n  local %s = {}\n  function %s.%s(a)\n    return a\n  end\n  return %s\nend\nprint(%s)\n", nm("mk"), tb, tb, fn, tb, fmt.Sprintf("%smk%d", pre, n)))
			}
			wants = append(wants, want{fn, "local-function-nested-in-blocks", true})
		case 14, 15:
			// a function two or three scope levels below the chunk, inside blocks that are followed by other blocks
			v := nm("DeepFn")
			form := fmt.Sprintf("local function %s(q)\n      return q\n    end\n    print(%s)", v, v)
			if r.Bool() {
				form = fmt.Sprintf("local %s = function(q)\n      return q\n    end\n    print(%s)", v, v)
			}
			switch r.Intn(3) {
			case 0:
				sb.WriteString(fmt.Sprintf("if true then\n  for i%d = 1, 2 do\n    %s\n  end\nend\n", i, form))
			case 1:
				sb.WriteString(fmt.Sprintf("do\n  while false do\n    %s\n  end\nend\n", form))
			default:
				sb.WriteString(fmt.Sprintf("local function %s(a)\n  if a then\n    %s\n  end\nend\nprint(%s)\n", nm("outerFn"), form, fmt.Sprintf("%souterFn%d", pre, n)))
			}
			wants = append(wants, want{v, "local-function-nested-in-blocks", true})
		case 13:
			cl := nm("Cls")
			sb.WriteString(fmt.Sprintf("---@class %s\n---@field fld%d number\nlocal %s = {}\n", cl, i, cl))
			wants = append(wants, want{cl, "annotated-class-table", false})
		}
	}
	f := c19File{Rel: fmt.Sprintf("sym%d.lua", idx), Text: sb.String()}
	lx := RLex([]byte(f.Text))
	// the declaring identifier = first token spelled with the (unique) name
	first := map[string]*Tok{}
	for _, t := range lx.Toks {
		if t.K == TName {
			if _, ok := first[t.Val]; !ok {
				first[t.Val] = t
			}
		}
	}
	for _, w := range wants {
		if t := first[w.name]; t != nil {
			f.Decls = append(f.Decls, c19Decl{Name: w.name, Kind: w.kind, Tok: t, WsQuery: w.ws})
		}
	}
	return f
}

func c19NormName(s string) string {
	s = strings.TrimPrefix(s, "local ")
	if i := strings.Index(s, "("); i >= 0 {
		s = s[:i]
	}
	if i := strings.LastIndexAny(s, ".:"); i >= 0 {
		s = s[i+1:]
	}
	return strings.TrimSpace(s)
}

func rangeContains(outer, inner Range) bool {
	return posLE(outer.Start, inner.Start) && posLE(inner.End, outer.End)
}

func runC19(c *Ctx) {
	nWS := c.N(500, 12000)
	root := NewRng(c.Seed).Fork(19)
	parallel(nWS, 14, func(wi int) {
		r := root.Fork(uint64(wi))
		nf := r.Range(1, 3)
		if wi%10 == 9 {
			// a large workspace: far more symbols than a workspace/symbol answer holds (the answer is cut to the best-scored entries)
			nf = r.Range(14, 36)
			c.Count("large_workspaces", 1)
		}
		var files []c19File
		fm := map[string]string{}
		for k := 0; k < nf; k++ {
			force := 0
			if k == 0 && wi%25 == 7 {
				// one file with several hundred symbols: more than the per-file share of a workspace/symbol answer
				force = r.Range(220, 330)
				c.Count("files_with_hundreds_of_symbols", 1)
			}
			f := c19GenFile(r, k, force)
			if pr := RParse([]byte(f.Text)); !pr.Valid() {
				panic("harness: C19 generator produced invalid program: " + pr.Err + "\n" + f.Text)
			}
			files = append(files, f)
			fm[f.Rel] = f.Text
		}
		// a function added, from another file, to a global table that the first file defines
		if nf > 1 && r.Bool() {
			for _, d := range files[0].Decls {
				if d.Kind == "global-table" {
					k := 1 + r.Intn(nf-1)
					nm := fmt.Sprintf("m%dxfn%d", k, r.Intn(1000))
					files[k].Text += fmt.Sprintf("function %s.%s(p)\n  return p\nend\n", d.Name, nm)
					fm[files[k].Rel] = files[k].Text
					lx := RLex([]byte(files[k].Text))
					for _, t := range lx.Toks {
						if t.K == TName && t.Val == nm {
							files[k].Decls = append(files[k].Decls, c19Decl{Name: nm, Kind: "function-member-of-table-defined-in-another-file", Tok: t, WsQuery: true})
							break
						}
					}
					// the tokens of the earlier declarations of that file are still valid: the text only grew at its end
					break
				}
			}
		}
		c.Eval(1)
		ws := c.NewWorkspace(fm)
		defer ws.Remove()
		srv, err := StartServer(ServerOpts{Root: ws.Root, Tag: fmt.Sprintf("c19w%d", wi)})
		if err != nil {
			c.Inconclusive("server failed (C01's business): " + err.Error())
			if srv != nil {
				srv.Close()
			}
			return
		}
		defer srv.Close()
		for _, f := range files {
			srv.DidOpen(ws.URI(f.Rel), f.Text)
		}
		if srv.Fence() != nil {
			c.Inconclusive("server died on open")
			return
		}
		for _, f := range files {
			src := []byte(f.Text)
			t := &RText{B: src}
			syms, _, err := srv.DocumentSymbol(ws.URI(f.Rel))
			if err != nil {
				c.Inconclusive("server stopped answering (C01's business)")
				return
			}
			type flat struct {
				name string
				rg   Range
				sel  Range
			}
			var all []flat
			var walk func(l []DocSymbol)
			walk = func(l []DocSymbol) {
				for _, s := range l {
					all = append(all, flat{c19NormName(s.Name), s.Range, s.SelectionRange})
					walk(s.Children)
				}
			}
			walk(syms)
			c.Count("outline_symbols_seen", int64(len(all)))
			// every returned range is well formed
			for _, s := range all {
				for _, rg := range []Range{s.rg, s.sel} {
					if !posLE(rg.Start, rg.End) || rg.End.Line >= t.Lines() || rg.Start.Character > t.LineLen16(rg.Start.Line) || rg.End.Character > t.LineLen16(rg.End.Line) {
						c.Report("outline-range-malformed", fmt.Sprintf("documentSymbol %s in %s has malformed range %v", s.name, f.Rel, rg), map[string]interface{}{"files": fm, "file": f.Rel})
					}
				}
			}
			for _, d := range f.Decls {
				want := f2range(src, d.Tok)
				c.Count("declarations_checked", 1)
				c.Distinct(f.Text + d.Name)
				found := false
				for _, s := range all {
					if s.name == d.Name && rangeContains(s.rg, want) {
						found = true
					}
				}
				if d.Kind == "local-function-nested-in-blocks" {
					// the outline lists the declarations of the chunk itself (and table members); functions local to inner
					// blocks are reached through workspace/symbol only - not asserted for the outline
					c.Count("dont_care_outline_of_block_local_function", 1)
					found = true
				}
				if !found {
					why := "absent"
					for _, s := range all {
						if s.name == d.Name {
							why = "range-does-not-contain-identifier"
						}
					}
					c.Report(fmt.Sprintf("outline-misses-declaration|%s|%s", d.Kind, why),
						fmt.Sprintf("documentSymbol of %s has no entry for %s (%s) containing its declaring identifier at %v (%s)", f.Rel, d.Name, d.Kind, want, why),
						map[string]interface{}{"files": fm, "file": f.Rel, "name": d.Name})
				}
				if !d.WsQuery {
					continue
				}
				sy, _, err := srv.WorkspaceSymbol(d.Name)
				if err != nil {
					c.Inconclusive("server stopped answering (C01's business)")
					return
				}
				c.Count("workspace_symbol_queries", 1)
				ok := false
				for _, s := range sy {
					if c19NormName(s.Name) == d.Name && s.Location.URI == ws.URI(f.Rel) && (rangeContains(s.Location.Range, want) || s.Location.Range == want) {
						ok = true
					}
				}
				if !ok {
					why := "absent"
					for _, s := range sy {
						if c19NormName(s.Name) == d.Name {
							why = "location-does-not-contain-identifier"
						}
					}
					c.Report(fmt.Sprintf("workspace-symbol-misses-declaration|%s|%s", d.Kind, why),
						fmt.Sprintf("workspace/symbol %q returns no entry located at its declaration %s@%v (%s, %s)", d.Name, f.Rel, want, d.Kind, why),
						map[string]interface{}{"files": fm, "file": f.Rel, "name": d.Name})
				}
			}
		}
		if wi < 2 {
			c.Sample(map[string]interface{}{"files": fm})
		}
	})
	kinds := []string{}
	seen := map[string]bool{}
	for i := 0; i < 40; i++ {
		for _, d := range c19GenFile(NewRng(uint64(i)), 0, 0).Decls {
			if !seen[d.Kind] {
				seen[d.Kind] = true
				kinds = append(kinds, d.Kind)
			}
		}
	}
	sort.Strings(kinds)
	c.Set("declaration_kinds", kinds)
	c.Finish("generated files (1-3 per workspace; every tenth workspace 14-36 files, several hundred symbols) with uniquely named top-level locals, global variables, global/local functions (statement and assignment forms), tables with "+
		"function members in the constructor, t.f / t:m / localtable.f / a.b.c function statements, globals assigned inside blocks and annotated class tables; every planted "+
		"declaration must appear in documentSymbol (any depth) with a well-formed range containing its declaring identifier, and globals/functions must be found by "+
		"workspace/symbol under their exact name at that declaration. distinct_nontrivial = distinct (file text, declaration) checked", 200)
}

func f2range(src []byte, t *Tok) Range { return Range{posAt(src, t.Off), posAt(src, t.End)} }
