package main

// vcheck reduce14 <replay.json>: shrink a C14 witness (single document, opened directly).

import (
	"encoding/json"
	"fmt"
	"os"
	"strings"
)

func c14Judge(c *Ctx, text, prefix string, n int) (bad string, ok bool) {
	probe := "print(" + prefix + ")"
	i := strings.Index(text, probe)
	if i < 0 || strings.Count(text, probe) != 1 {
		return "", false
	}
	cursor := i + len("print(") + len(prefix)
	pr := RParse([]byte(text))
	if !pr.Valid() {
		return "", false
	}
	br := RBind(pr)
	if len(br.SemanticOnly()) > 0 {
		return "", false
	}
	mustNot := map[string]bool{}
	must := map[string]bool{}
	for _, d := range br.Decls {
		if d.Tok == nil || !strings.HasPrefix(d.Name, prefix) {
			continue
		}
		visible := d.VisFrom <= cursor && cursor < d.VisTo
		inOwn := d.Stat != nil && d.Stat.K == SLocal && d.Stat.First.Off <= cursor && cursor <= d.Stat.Last.End
		if inOwn {
			continue
		}
		if visible {
			must[d.Name] = true
		} else {
			mustNot[d.Name] = true
		}
	}
	for k := range must {
		delete(mustNot, k)
	}
	for n := range br.Globals {
		delete(mustNot, n)
	}
	delete(must, prefix)
	delete(mustNot, prefix)
	ws := c.NewWorkspace(map[string]string{"a.lua": text})
	defer ws.Remove()
	srv, err := StartServer(ServerOpts{Root: ws.Root, Tag: fmt.Sprintf("r14_%d", n)})
	if err != nil {
		if srv != nil {
			srv.Close()
		}
		return "", false
	}
	defer srv.Close()
	srv.DidOpen(ws.URI("a.lua"), text)
	pos := posAt([]byte(text), cursor)
	items, _, err := srv.Completion(ws.URI("a.lua"), pos.Line, pos.Character, 1, "")
	if err != nil {
		return "", false
	}
	for _, it := range items {
		if mustNot[it.Label] {
			return "offered:" + it.Label, true
		}
	}
	labels := map[string]bool{}
	for _, it := range items {
		labels[it.Label] = true
	}
	for k := range must {
		if !labels[k] {
			return "missing:" + k, true
		}
	}
	return "", true
}

func init() {
	special["reduce14"] = func(args []string) int {
		b, err := os.ReadFile(args[0])
		if err != nil {
			fmt.Println(err)
			return 2
		}
		var rp struct {
			Case struct {
				Text   string `json:"text"`
				Prefix string `json:"prefix"`
			} `json:"case"`
		}
		json.Unmarshal(b, &rp)
		c := NewCtx("C14", "quick")
		defer os.RemoveAll(c.Tmp)
		n := 0
		text := rp.Case.Text
		bad0, _ := c14Judge(c, text, rp.Case.Prefix, n)
		if bad0 == "" {
			fmt.Println("does not reproduce on a directly opened document")
			return 1
		}
		kind := strings.SplitN(bad0, ":", 2)[0]
		for pass := 0; pass < 8; pass++ {
			progress := false
			for {
				did := false
				for _, sp := range reduceCandidates(text) {
					cand := text[:sp.a] + sp.repl + text[sp.b:]
					if len(cand) >= len(text) {
						continue
					}
					n++
					if bad, _ := c14Judge(c, cand, rp.Case.Prefix, n); strings.HasPrefix(bad, kind) {
						text = cand
						did = true
						progress = true
						break
					}
				}
				if !did {
					break
				}
			}
			if !progress {
				break
			}
		}
		bad, _ := c14Judge(c, text, rp.Case.Prefix, n+1)
		fmt.Printf("reduced (%d runs): %s\n%s\n", n, bad, text)
		return 0
	}
}
