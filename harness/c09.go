package main

// C09 — results are a function of workspace and configuration, not of scheduling.
// Monitor: R independent server processes on the same workspace (GOMAXPROCS 1/2/16, shuffled file
// creation order, Go's per-process map seed) must produce identical normalised observations:
// diagnostics per file and answers to a fixed probe set.

import (
	"fmt"
	"os"
	"path/filepath"
	"sort"
	"strings"
)

type c09WS struct {
	Kind  string            `json:"kind"`
	Files map[string]string `json:"files"`
}

// c09GeneratedDup: the same global defined in 2-4 files; the form of each definition (function statement of some arity,
// function / table / literal assignment), its line (leading blank lines), its column (indentation, a statement before it on
// the line) and its nesting (top level, do-block, function body) are drawn independently, so that definitions tie on some
// of (function level, scope level, line, column) and differ on the others.
func c09GeneratedDup(r *Rng) c09WS {
	n := r.Range(2, 4)
	files := map[string]string{}
	for i := 0; i < n; i++ {
		var def string
		switch r.Intn(5) {
		case 0:
			def = fmt.Sprintf("function GDup(%s) return %d end", strings.Join([]string{"a", "b", "c"}[:r.Range(1, 3)], ", "), i)
		case 1:
			def = fmt.Sprintf("GDup = function(%s) return %d end", strings.Join([]string{"p", "q", "r"}[:r.Range(1, 3)], ", "), i)
		case 2:
			def = fmt.Sprintf("GDup = { field%d = %d }", i, i)
		case 3:
			def = fmt.Sprintf("GDup = %d", i)
		default:
			def = fmt.Sprintf("GDup = \"s%d\"", i)
		}
		lead := strings.Repeat("\n", r.Intn(3))
		switch r.Intn(5) {
		case 0:
			def = "local pad" + fmt.Sprint(i) + " = 1; " + def // same line, other column
		case 1:
			def = "do\n  " + def + "\nend" // other scope level
		case 2:
			def = "do " + def + " end" // other scope level, same line as the `do`
		case 3:
			def = fmt.Sprintf("local function setter%d()\n  %s\nend\nsetter%d()", i, def, i) // other function level
		}
		files[fmt.Sprintf("def%d.lua", i)] = lead + def + "\n"
	}
	files["user.lua"] = "local r = GDup(1, 2)\nprint(r, GDup.field0, GDup.field1)\nlocal v = GDup\nprint(v)\n"
	return c09WS{"dup-global-generated", files}
}

// c09CrossFileMembers: several files add the same member (and sub-members) to a global table that another file defines.
func c09CrossFileMembers(r *Rng) c09WS {
	files := map[string]string{"defs.lua": "GTab = {}\nGOther = { own = 1 }\n"}
	n := r.Range(2, 4)
	for i := 0; i < n; i++ {
		var sb strings.Builder
		sb.WriteString(strings.Repeat("\n", r.Intn(4)))
		for k := r.Range(1, 3); k > 0; k-- {
			switch r.Intn(5) {
			case 0:
				fmt.Fprintf(&sb, "function GTab.sub:meth%d(a)\n  return a\nend\n", i)
			case 1:
				fmt.Fprintf(&sb, "GTab.sub.fld%d = %d\n", i, i)
			case 2:
				fmt.Fprintf(&sb, "function GTab.sub.deep%d.fn()\nend\n", i)
			case 3:
				fmt.Fprintf(&sb, "GTab.sub = { from%d = %d }\n", i, i)
			default:
				fmt.Fprintf(&sb, "GOther.own = %d\nGOther.added%d = %d\n", i, i, i)
			}
		}
		files[fmt.Sprintf("add%d.lua", i)] = sb.String()
	}
	files["user.lua"] = "local s = GTab.sub\nprint(s, GTab.sub.fld0, GTab.sub.from1, GOther.own)\nGTab.sub.meth0(1)\nlocal t = GTab.su\nlocal u = GTab.sub.f\n"
	return c09WS{"cross-file-members-of-global", files}
}

// c09Collision: forced >= 0 selects one of the five hand-written collision kinds (so that every kind is present several
// times in every run); otherwise the kind is drawn.
func c09Collision(r *Rng, forced int) c09WS {
	if forced < 0 {
		switch r.Intn(4) {
		case 0, 1:
			return c09GeneratedDup(r)
		case 2:
			return c09CrossFileMembers(r)
		}
		forced = r.Intn(11)
	}
	switch forced % 11 {
	case 10: // global functions with annotated parameters, called with too few arguments from their own file and from many others
		files := map[string]string{}
		var lib strings.Builder
		nf := r.Range(1, 3)
		for k := 0; k < nf; k++ {
			fmt.Fprintf(&lib, "---@param a number\n---@param b %s\n%sfunction lib_add%d(a, b%s)\n  return a\nend\n\n", r.Pick([]string{"number", "string|nil", "number"}),
				r.Pick([]string{"", "---@param c number\n"}), k, r.Pick([]string{"", ", c"}))
			fmt.Fprintf(&lib, "function lib_twice%d(a)\n  return lib_add%d(a)\nend\n", k, k)
		}
		files["lib.lua"] = lib.String()
		nu := r.Range(3, 8)
		if r.Chance(1, 3) {
			nu = r.Range(30, 60)
		}
		for i := 0; i < nu; i++ {
			files[fmt.Sprintf("%s/user%d.lua", r.Pick([]string{"a", "b"}), i)] = fmt.Sprintf("%sfunction user%d_run(x)\n  return lib_add%d(x), lib_add%d()\nend\n", strings.Repeat("\n", r.Intn(4)), i, r.Intn(nf), r.Intn(nf))
		}
		return c09WS{"annotated-function-called-short-from-many-files", files}
	case 9: // a workspace of many more files than the machine has processors, of very different sizes, whose symbol names share fragments
		files := map[string]string{}
		nf := r.Range(30, 60)
		frags := []string{"util", "Handler", "cfg", "f", "wide", "Dup", "item"}
		for i := 0; i < nf; i++ {
			var sb strings.Builder
			ns := []int{1, 2, 3, 5, 8, 40, 150}[r.Intn(7)]
			for k := 0; k < ns; k++ {
				name := fmt.Sprintf("%s%s_%d_%d", r.Pick([]string{"G", "g", ""}), r.Pick(frags), i, k)
				if r.Chance(1, 3) {
					name += strings.Repeat(r.Pick(frags), r.Range(1, 3))
				}
				switch r.Intn(3) {
				case 0:
					fmt.Fprintf(&sb, "function %s(a, b)\n  return a\nend\n", name)
				case 1:
					fmt.Fprintf(&sb, "%s = { %s = %d }\n", name, r.Pick(frags), k)
				default:
					fmt.Fprintf(&sb, "local %s = %d\nprint(%s)\n", name, k, name)
				}
			}
			files[fmt.Sprintf("%s/wide%d.lua", r.Pick([]string{"a", "b", "c"}), i)] = sb.String()
		}
		return c09WS{"wide-workspace", files}
	case 8: // nested table constructors on one line whose inner tables share key names
		var sb strings.Builder
		inner := []string{"x", "y", "w"}
		outer := []string{"min", "max", "mid", "pos"}
		n := r.Range(2, 4)
		sb.WriteString("local rect = { ")
		for i := 0; i < n; i++ {
			fmt.Fprintf(&sb, "%s = { ", outer[i])
			for _, k := range inner {
				fmt.Fprintf(&sb, "%s = %d, ", k, i*10+len(k))
			}
			sb.WriteString("}, ")
		}
		sb.WriteString("}\nprint(rect.min.x, rect.max.x, rect.max.y)\nGRect = { a = { id = 1, tag = \"a\" }, b = { id = 2, tag = \"b\" } }\nprint(GRect.a.id, GRect.b.id)\n")
		return c09WS{"nested-constructors-sharing-keys", map[string]string{"shape.lua": sb.String(), "use.lua": "print(GRect.b.tag, GRect.a.tag)\n"}}
	case 7: // a configuration file whose per-file rules overlap: two rules with different type lists match the same file
		lib := "local function util(p)\n  local u1, u2 = 1, 2\n  local w1\n  w1 = p\n  return p\nend\nlocal a, b = util(1), 2, 3\nprint(a, b, undefinedInLib)\n"
		return c09WS{"config-file-overlapping-rules", map[string]string{"lib/util.lua": lib, "lib/other.lua": lib, "main.lua": "local m1, m2 = 1\nprint(undefinedInMain)\n",
			"luahelper.json": `{"IgnoreFileErrTypes":[{"File":"lib/","Types":[4]},{"File":"lib/util.lua","Types":[7,17]},{"File":"util","Types":[2]},{"File":"main.lua","Types":[4]}]}`}}
	case 6: // a configuration file with name lists (ignored unused locals, ignored modules) and scopes that mix listed and unlisted names
		var sb strings.Builder
		sb.WriteString("local function work(p)\n")
		names := []string{"ignoredLocal", "skipMe"}
		for k := 0; k < r.Range(4, 9); k++ {
			names = append(names, fmt.Sprintf("a%d", k))
		}
		for _, k := range r.Perm(len(names)) {
			if r.Bool() {
				fmt.Fprintf(&sb, "  local %s = %d\n", names[k], k)
			} else {
				fmt.Fprintf(&sb, "  local %s\n  %s = p\n", names[k], names[k])
			}
		}
		sb.WriteString("  return p\nend\nprint(work(1), gFramework, Engine.run, notDefinedAnywhere)\n")
		return c09WS{"config-file-name-lists", map[string]string{"main.lua": sb.String(), "other.lua": "local ignoredLocal, b1, b2 = 1, 2, 3\nprint(gFramework)\n",
			"luahelper.json": `{"IgnoreLocalNoUseVars":["ignoredLocal","skipMe"],"IgnoreModules":["gFramework","Engine"]}`}}
	case 5: // tables and classes with more members than a hover / completion preview shows (the preview is cut to a fixed number)
		var sb strings.Builder
		n := r.Range(31, 60)
		sb.WriteString("local Big = {\n")
		for _, k := range r.Perm(n) {
			fmt.Fprintf(&sb, "  field%02d = %d,\n", k, k)
		}
		sb.WriteString("}\nprint(Big, Big.field03)\nGBig = { ")
		for _, k := range r.Perm(n) {
			fmt.Fprintf(&sb, "gf%02d = %d, ", k, k)
		}
		sb.WriteString("}\n---@class BigCls\n")
		for _, k := range r.Perm(n) {
			fmt.Fprintf(&sb, "---@field cf%02d number\n", k)
		}
		sb.WriteString("local BigCls = {}\n---@type BigCls\nlocal inst = {}\nprint(inst, BigCls, inst.cf01)\n")
		return c09WS{"big-table-preview", map[string]string{"conf.lua": sb.String(), "use.lua": "print(GBig, GBig.gf02)\nlocal g = GBig\nprint(g)\n"}}
	case 0: // the same global function defined in 2-3 files with different arities; a caller elsewhere
		n := r.Range(2, 3)
		files := map[string]string{}
		for i := 0; i < n; i++ {
			params := []string{"a", "b", "c"}[:i+1]
			pad := strings.Repeat("\n", r.Intn(2)*i) // same or different lines
			files[fmt.Sprintf("def%d.lua", i)] = fmt.Sprintf("%sfunction GDup(%s)\n  return %s\nend\n", pad, strings.Join(params, ", "), params[0])
		}
		files["caller.lua"] = "local r = GDup(1, 2)\nprint(r)\n"
		return c09WS{"dup-global-function-different-arity", files}
	case 1: // the same global variable defined in several files at the same line with different values
		n := r.Range(2, 3)
		files := map[string]string{}
		for i := 0; i < n; i++ {
			files[fmt.Sprintf("def%d.lua", i)] = fmt.Sprintf("GDupVar = { field%d = %d }\n", i, i)
		}
		files["user.lua"] = "local v = GDupVar\nprint(v.field0, v.field1)\n"
		return c09WS{"dup-global-variable", files}
	case 2: // same base name in different directories, required by a third file
		files := map[string]string{
			"a/util.lua": "local M = { fromA = 1 }\nreturn M\n",
			"b/util.lua": "local M = { fromB = 2 }\nreturn M\n",
			"main.lua":   "local u = require(\"util\")\nprint(u.fromA, u.fromB)\n",
		}
		if r.Bool() {
			files["c/d/util.lua"] = "local M = { fromC = 3 }\nreturn M\n"
		}
		return c09WS{"same-basename-modules", files}
	case 3: // duplicate annotation classes across files
		files := map[string]string{
			"c1.lua":  "---@class DupCls\n---@field one number\nlocal DupCls = {}\nreturn DupCls\n",
			"c2.lua":  "---@class DupCls\n---@field two string\nlocal DupCls = {}\nreturn DupCls\n",
			"use.lua": "---@type DupCls\nlocal v = {}\nprint(v.one, v.two)\n",
		}
		if r.Bool() {
			// a third and fourth declaration: every warning then relates to several other declarations
			files["c3.lua"] = "---@class DupCls\n---@field three boolean\nlocal DupCls = {}\nreturn DupCls\n"
			files["sub/c4.lua"] = "\n---@class DupCls\nlocal DupCls = {}\nreturn DupCls\n"
		}
		return c09WS{"dup-annotation-class", files}
	default: // duplicate global defined at different function levels
		files := map[string]string{
			"top.lua":   "GLevel = 1\n",
			"inner.lua": "local function set()\n  GLevel = \"s\"\nend\nset()\n",
			"use.lua":   "print(GLevel)\nlocal x = GLevel\nprint(x)\n",
		}
		return c09WS{"dup-global-different-levels", files}
	}
}

// c09Observe runs one server and returns the normalised observation as sorted lines.
func c09Observe(c *Ctx, w c09WS, run int, r *Rng, tag string) ([]string, error) {
	ws := c.NewWorkspace(nil)
	defer ws.Remove()
	rels := make([]string, 0, len(w.Files))
	for k := range w.Files {
		rels = append(rels, k)
	}
	sort.Strings(rels)
	for _, i := range r.Perm(len(rels)) { // shuffled creation order
		ws.Write(rels[i], w.Files[rels[i]])
	}
	procs := []string{"1", "2", "16"}[run%3]
	srv, err := StartServer(ServerOpts{Root: ws.Root, Tag: tag, Env: []string{"GOMAXPROCS=" + procs}})
	if err != nil {
		if srv != nil {
			srv.Close()
		}
		return nil, err
	}
	defer srv.Close()
	var obs []string
	for u, ds := range srv.View() {
		for _, d := range ds {
			obs = append(obs, "diag|"+ws.Rel(u)+"|"+strings.ReplaceAll(d.Key(), ws.Root, "$ROOT"))
		}
	}
	for _, rel := range rels {
		if !strings.HasSuffix(rel, ".lua") {
			continue
		}
		srv.DidOpen(ws.URI(rel), w.Files[rel])
	}
	if err := srv.Fence(); err != nil {
		return nil, err
	}
	norm := func(s string) string { return strings.ReplaceAll(s, ws.Root, "$ROOT") }
	for _, rel := range rels {
		if !strings.HasSuffix(rel, ".lua") {
			continue
		}
		src := []byte(w.Files[rel])
		uri := ws.URI(rel)
		lx := RLex(src)
		n := 0
		for _, t := range lx.Toks {
			if t.K != TName && !(t.K == TString && !t.Long) {
				continue
			}
			if n >= 12 || ((w.Kind == "wide-workspace" || len(w.Files) > 20) && n >= 2) {
				break
			}
			n++
			p := posAt(src, t.Off+1)
			if t.K == TName {
				p = posAt(src, t.Off)
			}
			locs, _, err := srv.Definition(uri, p.Line, p.Character)
			if err != nil {
				return nil, err
			}
			obs = append(obs, fmt.Sprintf("definition|%s|%v|%s", rel, p, fmtLocs(ws, locs)))
			hv, _, err := srv.Hover(uri, p.Line, p.Character)
			if err != nil {
				return nil, err
			}
			if hv != nil {
				obs = append(obs, fmt.Sprintf("hover|%s|%v|%s", rel, p, norm(hv.Contents.Value)))
			}
			refs, _, err := srv.References(uri, p.Line, p.Character)
			if err != nil {
				return nil, err
			}
			obs = append(obs, fmt.Sprintf("references|%s|%v|%s", rel, p, fmtLocs(ws, refs)))
			if t.K == TName {
				pe := posAt(src, t.End)
				items, _, err := srv.Completion(uri, pe.Line, pe.Character, 1, "")
				if err != nil {
					return nil, err
				}
				var labels []string
				for _, it := range items {
					labels = append(labels, it.Label+"/"+it.Detail)
				}
				sort.Strings(labels)
				obs = append(obs, fmt.Sprintf("completion|%s|%v|%s", rel, pe, strings.Join(labels, ",")))
			}
		}
		syms, _, err := srv.DocumentSymbol(uri)
		if err != nil {
			return nil, err
		}
		var ss []string
		var walk func(pre string, l []DocSymbol)
		walk = func(pre string, l []DocSymbol) {
			for _, s := range l {
				ss = append(ss, fmt.Sprintf("%s%s@%s", pre, s.Name, s.Range))
				walk(pre+s.Name+">", s.Children)
			}
		}
		walk("", syms)
		sort.Strings(ss)
		obs = append(obs, "documentSymbol|"+rel+"|"+strings.Join(ss, ","))
	}
	queries := []string{"G", "Dup", "util", "f"}
	if w.Kind == "wide-workspace" {
		// the same queries several times over: each is answered by a pool of workers over all files
		queries = []string{"G", "Dup", "util", "f", "Handler", "gcfg", "wide_3", "itemitem", "G", "util", "Handler", "gcfg", "wide_3", "utl", "Hdlr", "util", "G", "Handler", "itemitem", "cfg_1"}
	}
	for qi, q := range queries {
		if qi >= 4 {
			q = fmt.Sprintf("%s#%d", q, qi)
		}
		ws2, _, err := srv.WorkspaceSymbol(strings.SplitN(q, "#", 2)[0])
		if err != nil {
			return nil, err
		}
		var ss []string
		for _, s := range ws2 {
			ss = append(ss, fmt.Sprintf("%s@%s@%s", s.Name, ws.Rel(s.Location.URI), s.Location.Range))
		}
		sort.Strings(ss)
		obs = append(obs, "workspaceSymbol|"+q+"|"+strings.Join(ss, ","))
	}
	// a fixed little history of file events, then the published view again: one file is announced as changed without
	// its bytes changing (so the server holds its text), then one file really changes and is announced together with
	// the untouched one in a single batch. What the client holds afterwards must not depend on which worker finishes last.
	var luaRels []string
	for _, rel := range rels {
		if strings.HasSuffix(rel, ".lua") {
			luaRels = append(luaRels, rel)
		}
	}
	if len(luaRels) >= 2 {
		a, b := luaRels[0], luaRels[len(luaRels)-1]
		ev := func(rs ...string) {
			var chs []interface{}
			for _, rel := range rs {
				chs = append(chs, map[string]interface{}{"uri": ws.URI(rel), "type": 2})
			}
			srv.Notify("workspace/didChangeWatchedFiles", map[string]interface{}{"changes": chs})
		}
		for _, rel := range luaRels {
			srv.Notify("textDocument/didClose", map[string]interface{}{"textDocument": map[string]interface{}{"uri": ws.URI(rel)}})
		}
		ev(b)
		if err := srv.Fence(); err != nil {
			return nil, err
		}
		for round := 0; round < 3; round++ {
			ws.Write(a, w.Files[a]+fmt.Sprintf("\nGC09Extra%d = %d\nprint(c09Undefined%d)\n", round, round, round))
			ev(a, b)
			if err := srv.Fence(); err != nil {
				return nil, err
			}
			for u, ds := range srv.View() {
				for _, d := range ds {
					obs = append(obs, fmt.Sprintf("post-events-%d|diag|%s|%s", round, ws.Rel(u), strings.ReplaceAll(d.Key(), ws.Root, "$ROOT")))
				}
			}
		}
	}
	sort.Strings(obs)
	return obs, nil
}

func runC09(c *Ctx) {
	nUnique := c.N(24, 400)
	nColl := c.N(40, 500)
	R := c.N(6, 30)
	root := NewRng(c.Seed).Fork(9)
	var wss []c09WS
	for i := 0; i < nUnique; i++ {
		r := root.Fork(uint64(i))
		sw := GenScopeWS(r, ScopeCfg{NoMulti: true, NFiles: r.Range(2, 5), Depth: r.Range(2, 3)})
		wss = append(wss, c09WS{"unique-names", sw.FileMap()})
	}
	// the repository's own project testdata
	for _, d := range []string{"define", "hover", "complete"} {
		files := map[string]string{}
		ms, _ := filepath.Glob(filepath.Join(repoDir(), "luahelper-lsp", "testdata", d, "*.lua"))
		for _, m := range ms {
			if b, err := os.ReadFile(m); err == nil {
				files[filepath.Base(m)] = string(b)
			}
		}
		if len(files) > 0 {
			wss = append(wss, c09WS{"testdata-" + d, files})
		}
	}
	for i := 0; i < nColl; i++ {
		forced := -1
		if i < 33 {
			forced = i // three of each hand-written kind first
		}
		wss = append(wss, c09Collision(root.Fork(uint64(100000+i)), forced))
	}
	distinctPerKind := map[string]int{}
	parallel(len(wss), 5, func(wi int) {
		w := wss[wi]
		c.Eval(1)
		var all [][]string
		r := root.Fork(uint64(777 + wi))
		deaths := 0
		for run := 0; run < R; run++ {
			obs, err := c09Observe(c, w, run, r.Fork(uint64(run)), fmt.Sprintf("c09w%dr%d", wi, run))
			if err == ErrDead {
				// a process that dies on this workspace: C01's business when it dies in every run, scheduling dependence when it
				// dies in some runs and answers in others
				deaths++
				c.Count("server_runs", 1)
				continue
			}
			if err != nil {
				c.Inconclusive("server failed during a determinism run (C01's business): " + err.Error())
				return
			}
			c.Count("server_runs", 1)
			c.Count("observations_compared", int64(len(obs)))
			all = append(all, obs)
		}
		if deaths == R {
			c.Inconclusive("the server process died in every run on one workspace (C01's business)")
			return
		}
		if deaths > 0 {
			c.Report(fmt.Sprintf("nondeterministic|%s|process-death-in-some-runs", w.Kind),
				fmt.Sprintf("of %d runs of the same %s workspace and the same requests, %d ended with the death of the server process and %d were answered", R, w.Kind, deaths, R-deaths),
				map[string]interface{}{"workspace": w, "deaths": deaths, "runs": R})
			return
		}
		distinct := map[string]int{}
		for _, o := range all {
			distinct[strings.Join(o, "\n")]++
		}
		c.mu.Lock()
		if len(distinct) > distinctPerKind[w.Kind] {
			distinctPerKind[w.Kind] = len(distinct)
		}
		c.mu.Unlock()
		if len(distinct) == 1 {
			c.Distinct(fmt.Sprint(w.Files))
			return
		}
		// which observables differ
		kinds := map[string]bool{}
		base := all[0]
		var example [2]string
		for _, o := range all[1:] {
			d1 := setDiffS(base, o)
			d2 := setDiffS(o, base)
			for _, l := range append(append([]string{}, d1...), d2...) {
				k := strings.SplitN(l, "|", 2)[0]
				if k == "diag" {
					if m := typeInKeyRe.FindStringSubmatch(l); m != nil {
						k = "diag-type" + m[1]
					}
				}
				kinds[k] = true
			}
			if len(d1) > 0 && example[0] == "" {
				example[0] = d1[0]
			}
			if len(d2) > 0 && example[1] == "" {
				example[1] = d2[0]
			}
		}
		var kl []string
		for k := range kinds {
			kl = append(kl, k)
		}
		sort.Strings(kl)
		c.Report(fmt.Sprintf("nondeterministic|%s|%s", w.Kind, strings.Join(kl, ",")),
			fmt.Sprintf("%d runs of the same %s workspace gave %d distinct observations; e.g. %q vs %q", R, w.Kind, len(distinct), truncate(example[0], 300), truncate(example[1], 300)),
			map[string]interface{}{"workspace": w, "distinct_observations": len(distinct), "example_difference": example})
	})
	c.Set("max_distinct_observations_per_workspace_kind", distinctPerKind)
	c.Set("runs_per_workspace", R)
	c.Sample(map[string]interface{}{"kind": wss[0].Kind, "files": truncate(fmt.Sprint(wss[0].Files), 400)})
	c.Finish("every workspace (generated with unique names, the repository's testdata projects, and collision workspaces: duplicate globals with different "+
		"arity/level, generated duplicate globals whose definitions tie or differ independently in form, line, column, scope level and function level, members added to a global table from several files, "+
		"same-basename modules, duplicate annotation classes) is analysed by R independent server processes with GOMAXPROCS cycling 1/2/16 and "+
		"shuffled file creation order; the sorted diagnostics and probe answers (definition, hover, references, completion, documentSymbol, workspace/symbol) "+
		"must be identical, and so must the published diagnostics after a fixed history of watched-file events (a touch, then three batches announcing one really changed and one untouched file). distinct_nontrivial = workspaces whose R observations were all equal", 10)
}
