package main

// vcheck crashreplay <witness.json>: re-creates the workspace of a crash witness (CrashWitness),
// opens every file and re-sends the last requests of the journal tail. Exit 1 if the server dies.

import (
	"encoding/json"
	"fmt"
	"os"
	"regexp"
	"strings"
	"time"
)

type crashWitness struct {
	Signature   string            `json:"signature"`
	JournalTail string            `json:"journal_tail"`
	Files       map[string]string `json:"files"`
}

var wsURIRe = regexp.MustCompile(`file:///tmp/lhv\d+/w\d+/ws`)

// replayCrash returns (died, crash info, error).
func replayCrash(c *Ctx, w crashWitness, binary string) (bool, CrashInfo, error) {
	ws := c.NewWorkspace(w.Files)
	defer ws.Remove()
	srv, err := StartServer(ServerOpts{Root: ws.Root, Binary: binary, Tag: "replay"})
	if err != nil {
		if srv != nil {
			srv.WaitDeath(3 * time.Second)
			ci := srv.Crash()
			srv.Close()
			return true, ci, nil
		}
		return false, CrashInfo{}, err
	}
	defer srv.Close()
	for rel, txt := range w.Files {
		if strings.HasSuffix(rel, ".lua") {
			srv.DidOpen(ws.URI(rel), txt)
		}
	}
	if err := srv.Fence(); err != nil {
		srv.WaitDeath(3 * time.Second)
		return true, srv.Crash(), nil
	}
	for _, line := range strings.Split(w.JournalTail, "\n") {
		if !strings.HasPrefix(line, ">>") {
			continue
		}
		i := strings.Index(line, " ")
		if i < 0 {
			continue
		}
		body := wsURIRe.ReplaceAllString(line[i+1:], "file://"+ws.Root)
		var m struct {
			ID     *int            `json:"id"`
			Method string          `json:"method"`
			Params json.RawMessage `json:"params"`
		}
		if json.Unmarshal([]byte(body), &m) != nil || m.Method == "" || m.Method == "verif/sync" {
			continue
		}
		if m.ID == nil {
			srv.Notify(m.Method, m.Params)
			continue
		}
		if _, err := srv.Request(m.Method, m.Params); err != nil {
			srv.WaitDeath(5 * time.Second)
			return true, srv.Crash(), nil
		}
	}
	if err := srv.Fence(); err != nil {
		srv.WaitDeath(3 * time.Second)
		return true, srv.Crash(), nil
	}
	return false, CrashInfo{}, nil
}

func init() {
	special["crashreplay"] = func(args []string) int {
		if len(args) < 1 {
			fmt.Println("usage: crashreplay <witness.json>")
			return 2
		}
		b, err := os.ReadFile(args[0])
		if err != nil {
			fmt.Println(err)
			return 2
		}
		var w crashWitness
		if err := json.Unmarshal(b, &w); err != nil {
			fmt.Println(err)
			return 2
		}
		c := NewCtx("replay", "quick")
		defer os.RemoveAll(c.Tmp)
		died, ci, err := replayCrash(c, w, "")
		if err != nil {
			fmt.Println("error:", err)
			return 2
		}
		if died {
			fmt.Println("server died:", ci.Sig())
			return 1
		}
		fmt.Println("server survived the replay")
		return 0
	}
}
