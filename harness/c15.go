package main

// C15 — annotated types give a variable exactly its declared and inherited members.
// Monitor: textDocument/completion after `v.` (typing flow) and textDocument/definition on
// `v.member` vs the transitive field set computed from the annotation comments by R-class.

import (
	"fmt"
	"sort"
	"strings"
)

type c15Class struct {
	Name    string
	Parents []string
	Fields  []string // ---@field names
	Extra   []string // members assigned through the class table variable in the declaring file
	File    string
	HasVar  bool
	// positions of field names: file line/col recorded at generation
	FieldPos map[string][2]int
	// FieldFile: file of a field declared in a second part of the class (same ---@class name in another file)
	FieldFile map[string]string
	Split     bool
}

type c15Var struct {
	Name    string
	TypeStr string // annotation text
	Access  string // "" | "[1]" | "[\"k\"]"
	Class   string // class the members come from
	Via     string // direct / alias / alias-chain / array / map / array-alias / follows-class
}

type c15WS struct {
	Files   map[string]string
	Classes map[string]*c15Class
	Vars    []c15Var
	UseFile string
	Cyclic  map[string]bool // classes whose ancestor graph contains a cycle
	// MultiDecl: field names declared by more than one class (a child re-declaring a parent's field)
	MultiDecl map[string]bool
}

func c15Gen(r *Rng) c15WS {
	n := r.Range(2, 10)
	w := c15WS{Files: map[string]string{}, Classes: map[string]*c15Class{}, Cyclic: map[string]bool{}, MultiDecl: map[string]bool{}, UseFile: "use.lua"}
	var names []string
	for i := 0; i < n; i++ {
		names = append(names, fmt.Sprintf("Kls%d", i))
	}
	nfiles := r.Range(1, 3)
	cyc := r.Chance(1, 4)
	fileText := map[string]*strings.Builder{}
	fileLine := map[string]int{}
	openBlock := map[string]bool{} // the file's last class has no variable and no blank line after it yet
	// one class may be declared in two parts (part1.lua / part2.lua). Both parts live in files of their own: a file that
	// declares a class itself resolves the name locally first (by design), so the union of the parts is only defined for
	// files that declare neither part.
	splitIdx := -1
	if r.Chance(1, 3) {
		splitIdx = r.Intn(n)
	}
	for i, nm := range names {
		c := &c15Class{Name: nm, FieldPos: map[string][2]int{}, File: fmt.Sprintf("types%d.lua", i%nfiles)}
		if i == splitIdx {
			c.File = "part1.lua"
		}
		// parents: earlier classes (acyclic, diamonds possible); with cyc also later ones / itself
		np := r.Intn(4)
		if i == 0 {
			np = 0
		}
		seen := map[string]bool{}
		for k := 0; k < np; k++ {
			var p string
			if cyc && r.Chance(1, 3) {
				p = names[r.Intn(n)]
			} else if i > 0 {
				p = names[r.Intn(i)]
			} else {
				continue
			}
			if !seen[p] {
				seen[p] = true
				c.Parents = append(c.Parents, p)
			}
		}
		for k := 0; k < r.Range(0, 3); k++ {
			c.Fields = append(c.Fields, fmt.Sprintf("%s_f%d", strings.ToLower(nm), k))
		}
		// a child may declare a field of one of its parents again (an override)
		if len(c.Parents) > 0 && r.Chance(1, 3) {
			if pc := w.Classes[c.Parents[r.Intn(len(c.Parents))]]; pc != nil && len(pc.Fields) > 0 {
				of := pc.Fields[r.Intn(len(pc.Fields))]
				dup := false
				for _, x := range c.Fields {
					if x == of {
						dup = true
					}
				}
				if !dup {
					c.Fields = append(c.Fields, of)
					w.MultiDecl[of] = true
				}
			}
		}
		c.HasVar = r.Chance(2, 3)
		if c.HasVar && r.Bool() {
			c.Extra = append(c.Extra, fmt.Sprintf("%s_method", strings.ToLower(nm)))
			if r.Bool() {
				c.Extra = append(c.Extra, fmt.Sprintf("%s_assigned", strings.ToLower(nm)))
			}
		}
		w.Classes[nm] = c
		sb := fileText[c.File]
		if sb == nil {
			sb = &strings.Builder{}
			fileText[c.File] = sb
		}
		emit := func(s string) { sb.WriteString(s + "\n"); fileLine[c.File]++ }
		if openBlock[c.File] {
			if c.HasVar || r.Fork(uint64(0xad00+i)).Bool() {
				emit("")
			}
			openBlock[c.File] = false
		}
		hdr := "---@class " + nm
		if len(c.Parents) > 0 {
			hdr += " : " + strings.Join(c.Parents, ", ")
		}
		if r.Chance(1, 3) {
			hdr += " @a class comment"
		}
		emit(hdr)
		for _, f := range c.Fields {
			vis := r.Pick([]string{"", "", "public ", "private ", "protected "})
			line := fmt.Sprintf("---@field %s%s %s", vis, f, r.Pick([]string{"number", "string", "boolean", "table", "fun()", "number[]", names[r.Intn(n)]}))
			c.FieldPos[f] = [2]int{fileLine[c.File], strings.Index(line, f)}
			emit(line)
		}
		if c.HasVar {
			emit(fmt.Sprintf("local %s = {}", nm))
			for _, e := range c.Extra {
				if strings.HasSuffix(e, "_method") {
					emit(fmt.Sprintf("function %s:%s() end", nm, e))
				} else {
					emit(fmt.Sprintf("%s.%s = 1", nm, e))
				}
			}
		}
		// a class without a table variable may be followed directly by the next class of the file, if that one has no
		// variable either (one comment block holding several ---@class declarations; which class a variable below such
		// a block would belong to is not documented, so no variable follows one)
		if c.HasVar {
			emit("")
		} else {
			openBlock[c.File] = true
		}
	}
	_ = openBlock
	// a class declared in two parts: the same ---@class name appears again in another file with further fields
	if splitIdx >= 0 {
		c := w.Classes[names[splitIdx]]
		pf := "part2.lua"
		sb := &strings.Builder{}
		fileText[pf] = sb
		sb.WriteString("-- second part\n---@class " + c.Name + "\n")
		c.FieldFile = map[string]string{}
		for k := 0; k < r.Range(1, 2); k++ {
			f := fmt.Sprintf("%s_p2f%d", strings.ToLower(c.Name), k)
			line := fmt.Sprintf("---@field %s %s", f, r.Pick([]string{"number", "string", "boolean"}))
			c.Fields = append(c.Fields, f)
			c.FieldPos[f] = [2]int{2 + k, strings.Index(line, f)}
			c.FieldFile[f] = pf
			sb.WriteString(line + "\n")
		}
		c.Split = true
	}
	// aliases
	al := &strings.Builder{}
	al.WriteString("---@alias AliasOne " + names[r.Intn(n)] + "\n")
	aliasOneTarget := ""
	{
		s := al.String()
		aliasOneTarget = strings.TrimSpace(s[strings.LastIndex(s, " ")+1:])
	}
	al.WriteString("---@alias AliasTwo AliasOne\n")
	al.WriteString("---@alias AliasArr " + names[0] + "[]\n")
	al.WriteString("---@alias AliasMap table<string, " + names[n-1] + ">\n---@alias AliasMapTwo AliasMap\n")
	if cyc {
		al.WriteString("---@alias CycA CycB\n---@alias CycB CycA\n")
	}
	w.Files["aliases.lua"] = al.String()
	for f, sb := range fileText {
		w.Files[f] = sb.String()
	}
	// variables
	pick := func() string { return names[r.Intn(n)] }
	nv := r.Range(2, 6)
	for i := 0; i < nv; i++ {
		v := c15Var{Name: fmt.Sprintf("var%d", i)}
		switch r.Intn(11) {
		case 9:
			// a map indexed by a variable, not by a string literal
			v.Class = pick()
			v.TypeStr = "table<string, " + v.Class + ">"
			v.Access = "[keyv]"
			v.Via = "map-variable-key"
		case 10:
			v.Class = pick()
			v.TypeStr = "table<number, " + v.Class + ">"
			v.Access = "[1]"
			v.Via = "map-number-key"
		case 7:
			v.Class = names[n-1]
			v.TypeStr = "AliasMap"
			v.Access = "[\"k\"]"
			v.Via = "map-alias"
		case 8:
			v.Class = names[n-1]
			v.TypeStr = "AliasMapTwo"
			v.Access = "[\"k\"]"
			v.Via = "map-alias-chain"
		case 0, 1:
			v.Class = pick()
			v.TypeStr = v.Class
			v.Via = "direct"
		case 2:
			v.Class = aliasOneTarget
			v.TypeStr = "AliasOne"
			v.Via = "alias"
		case 3:
			v.Class = aliasOneTarget
			v.TypeStr = "AliasTwo"
			v.Via = "alias-chain"
		case 4:
			v.Class = pick()
			v.TypeStr = v.Class + "[]"
			v.Access = "[1]"
			v.Via = "array"
		case 5:
			v.Class = pick()
			v.TypeStr = "table<string, " + v.Class + ">"
			v.Access = "[\"k\"]"
			v.Via = "map"
		case 6:
			v.Class = names[0]
			v.TypeStr = "AliasArr"
			v.Access = "[1]"
			v.Via = "array-alias"
		}
		w.Vars = append(w.Vars, v)
	}
	if cyc {
		w.Vars = append(w.Vars, c15Var{Name: "varcyc", TypeStr: "CycA", Class: "", Via: "cyclic-alias"})
	}
	// cycle detection per class
	for _, nm := range names {
		onPath := map[string]bool{}
		var dfs func(x string) bool
		visited := map[string]bool{}
		dfs = func(x string) bool {
			if onPath[x] {
				return true
			}
			if visited[x] {
				return false
			}
			visited[x] = true
			onPath[x] = true
			for _, p := range w.Classes[x].Parents {
				if dfs(p) {
					return true
				}
			}
			onPath[x] = false
			return false
		}
		w.Cyclic[nm] = dfs(nm)
	}
	return w
}

// rclassMembers: transitive closure of fields and documented extra members.
func (w *c15WS) members(cls string) (fields map[string]string, extra map[string]bool) {
	fields = map[string]string{} // field -> declaring class
	extra = map[string]bool{}
	seen := map[string]bool{}
	var walk func(x string)
	walk = func(x string) {
		if seen[x] || w.Classes[x] == nil {
			return
		}
		seen[x] = true
		for _, f := range w.Classes[x].Fields {
			fields[f] = x
		}
		for _, e := range w.Classes[x].Extra {
			extra[e] = true
		}
		for _, p := range w.Classes[x].Parents {
			walk(p)
		}
	}
	walk(cls)
	return
}

func runC15(c *Ctx) {
	nWS := c.N(2000, 100000)
	root := NewRng(c.Seed).Fork(15)
	parallel(nWS, 14, func(wi int) {
		r := root.Fork(uint64(wi))
		w := c15Gen(r)
		c.Eval(1)
		// the use file: typed variables, then one `local _ = v.member` line per expected field (flow i)
		var sb strings.Builder
		line := 0
		emit := func(s string) { sb.WriteString(s + "\n"); line++ }
		type memberUse struct {
			v     c15Var
			field string
			line  int
			col   int
		}
		var uses []memberUse
		emit("local keyv = \"k\"")
		// declarations: one variable per statement, or runs of 2-3 variables declared by one statement under one
		// `---@type A, B, C` list (the n-th type belongs to the n-th variable)
		rd := r.Fork(0x6d756c7469)
		for i := 0; i < len(w.Vars); {
			k := 1
			if rd.Chance(1, 3) {
				k = rd.Range(2, 3)
			}
			if i+k > len(w.Vars) {
				k = len(w.Vars) - i
			}
			var ts, ns, vs []string
			for _, v := range w.Vars[i : i+k] {
				ts = append(ts, v.TypeStr)
				ns = append(ns, v.Name)
				vs = append(vs, "{}")
			}
			if rd.Chance(1, 3) {
				// a statement with a trailing comment directly above the annotation line
				emit(fmt.Sprintf("local pad%d = %d -- running total", i, i))
			}
			emit("---@type " + strings.Join(ts, ", "))
			emit(fmt.Sprintf("local %s = %s", strings.Join(ns, ", "), strings.Join(vs, ", ")))
			if k > 1 {
				c.Count("multi_variable_typed_declarations", 1)
			}
			i += k
		}
		declEnd := sb.Len() // the typed declarations end here; the member reads of flow (i) follow
		for _, v := range w.Vars {
			if v.Class == "" {
				emit(fmt.Sprintf("local _ = %s.anything", v.Name))
				uses = append(uses, memberUse{v, "", line - 1, len(fmt.Sprintf("local _ = %s.", v.Name)) + 1})
				continue
			}
			fields, _ := w.members(v.Class)
			var fl []string
			for f := range fields {
				fl = append(fl, f)
			}
			sort.Strings(fl)
			for _, f := range fl {
				text := fmt.Sprintf("local _ = %s%s.%s", v.Name, v.Access, f)
				uses = append(uses, memberUse{v, f, line, strings.LastIndex(text, f) + 1})
				emit(text)
			}
		}
		files := map[string]string{}
		for k, v := range w.Files {
			files[k] = v
		}
		files[w.UseFile] = sb.String()
		ws := c.NewWorkspace(files)
		defer ws.Remove()
		srv, err := StartServer(ServerOpts{Root: ws.Root, Tag: fmt.Sprintf("c15w%d", wi)})
		if err != nil {
			c.Report("server-down-on-annotation-graph", "the server did not survive loading a generated class/alias graph: "+err.Error(), map[string]interface{}{"files": files})
			if srv != nil {
				srv.Close()
			}
			return
		}
		defer srv.Close()
		useURI := ws.URI(w.UseFile)
		srv.DidOpen(useURI, files[w.UseFile])
		if srv.Fence() != nil {
			c.Report("server-down-on-annotation-graph", "the server died while opening the use file", map[string]interface{}{"files": files})
			return
		}
		witness := func(extra map[string]interface{}) interface{} {
			m := map[string]interface{}{"files": files}
			for k, v := range extra {
				m[k] = v
			}
			return m
		}
		// flow (i): definition on v.member
		phase := ""
		useShift := 0 // lines inserted above the use file's content by an unsaved edit
		definitionFlow := func() bool {
			for _, u := range uses {
				locs, _, err := srv.Definition(useURI, u.line+useShift, u.col)
				if err != nil {
					c.Report("server-down-on-member-query|"+u.v.Via, fmt.Sprintf("the server died on definition of a member of %s (%s)", u.v.Name, u.v.TypeStr), witness(nil))
					return false
				}
				c.Count("member_definition_queries", 1)
				if u.field == "" {
					continue // cyclic alias: only liveness
				}
				if w.MultiDecl[u.field] {
					c.Count("dont_care_definition_of_a_field_declared_by_several_classes", 1)
					continue
				}
				fields, _ := w.members(u.v.Class)
				decl := w.Classes[fields[u.field]]
				fp := decl.FieldPos[u.field]
				declFile := decl.File
				if pf, ok := decl.FieldFile[u.field]; ok {
					declFile = pf
				}
				want := Location{URI: ws.URI(declFile), Range: Range{Position{fp[0], fp[1]}, Position{fp[0], fp[1] + len(u.field)}}}
				if declFile == w.UseFile {
					want.Range.Start.Line += useShift
					want.Range.End.Line += useShift
				}
				c.Distinct(fmt.Sprint(files, u.line))
				inherited := "own"
				if fields[u.field] != u.v.Class {
					inherited = "inherited"
				}
				cyc := ""
				if w.Cyclic[u.v.Class] {
					cyc = "|cyclic-graph"
				}
				if len(locs) != 1 || locs[0] != want {
					c.Report(fmt.Sprintf("member-definition|%s|%s%s%s", u.v.Via, inherited, cyc, phase),
						fmt.Sprintf("definition of %s%s.%s (type %s, field declared in %s)%s should be %s@%v, got %s", u.v.Name, u.v.Access, u.field, u.v.TypeStr, fields[u.field], phase, declFile, want.Range, fmtLocs(ws, locs)),
						witness(map[string]interface{}{"var": u.v, "field": u.field, "phase": phase}))
				}
			}
			return true
		}
		if !definitionFlow() {
			return
		}
		// flow (ii): typing `v.` then completion with trigger '.'
		ver := 1
		base := files[w.UseFile]
		dead := false
		completionFlow := func() {
			for _, v := range w.Vars {
				typed := base + v.Name + v.Access + "."
				ver++
				srv.DidChangeFull(useURI, ver, typed)
				pos := posAt([]byte(typed), len(typed))
				items, _, err := srv.Completion(useURI, pos.Line, pos.Character, 2, ".")
				if err != nil {
					c.Report("server-down-on-member-query|"+v.Via, fmt.Sprintf("the server died on member completion of %s (%s)", v.Name, v.TypeStr), witness(nil))
					dead = true
					return
				}
				c.Count("member_completion_queries", 1)
				if v.Class == "" {
					continue
				}
				if w.Classes[v.Class] == nil {
					c.Count("dont_care_variable_of_a_class_whose_file_was_deleted", 1)
					continue
				}
				fields, extra := w.members(v.Class)
				labels := map[string]bool{}
				for _, it := range items {
					if labels[it.Label] {
						c.Report("member-completion|"+v.Via+"|label-offered-twice", fmt.Sprintf("completion after %s%s. (type %s) offers %s twice", v.Name, v.Access, v.TypeStr, it.Label), witness(nil))
					}
					labels[it.Label] = true
				}
				c.Distinct(fmt.Sprint(files, v.Name))
				var missing, surplus []string
				for f := range fields {
					if !labels[f] {
						missing = append(missing, f)
					}
				}
				for e := range extra {
					if !labels[e] {
						missing = append(missing, e)
					}
				}
				for l := range labels {
					if _, ok := fields[l]; !ok && !extra[l] {
						if strings.Contains(phase, "deleted") && strings.Contains(base, v.Name+v.Access+"."+l+"\n") {
							// a member the use file itself reads on this variable is offered as a member seen in code,
							// whatever the variable's class declares (by design); before the deletion it was a declared field
							c.Count("dont_care_member_read_in_the_use_file", 1)
							continue
						}
						surplus = append(surplus, l)
					}
				}
				sort.Strings(missing)
				sort.Strings(surplus)
				cyclic := w.Cyclic[v.Class]
				if len(missing) > 0 || (len(surplus) > 0 && !cyclic) {
					kind := "missing"
					if len(missing) == 0 {
						kind = "surplus"
					} else if len(surplus) > 0 {
						kind = "missing+surplus"
					}
					onlyExtraMissing := len(missing) > 0
					for _, m := range missing {
						if !extra[m] {
							onlyExtraMissing = false
						}
					}
					if onlyExtraMissing && kind == "missing" {
						kind = "missing-assigned-members-only"
					}
					cy := ""
					if cyclic {
						cy = "|cyclic-graph"
					}
					c.Report(fmt.Sprintf("member-completion|%s|%s%s%s", v.Via, kind, cy, phase),
						fmt.Sprintf("completion after %s%s. (type %s)%s: missing %v, surplus %v", v.Name, v.Access, v.TypeStr, phase, missing, surplus),
						witness(map[string]interface{}{"var": v, "labels": sortedBoolKeys(labels), "phase": phase}))
				}
			}
			ver++
			srv.DidChangeFull(useURI, ver, base)
		}
		completionFlow()
		if dead {
			return
		}
		// an unsaved edit inserts lines at the top of the use file: every typed declaration (and its annotation line) moves down in
		// the document while the file on disk stays as it was; both flows again on the moved lines
		if rs := r.Fork(0x7368696674); rs.Chance(1, 2) {
			useShift = rs.Range(1, 3)
			base = strings.Repeat(rs.Pick([]string{"-- inserted above\n", "\n", "local inserted = 0\n"}), useShift) + base
			declEnd += len(base) - len(files[w.UseFile])
			ver++
			srv.DidChangeFull(useURI, ver, base)
			if srv.Fence() != nil {
				c.Report("server-down-on-annotation-graph", "the server died on an edit of the use file", witness(nil))
				return
			}
			phase = "|after-unsaved-lines-inserted-above"
			c.Count("use_files_with_lines_inserted_above_by_an_unsaved_edit", 1)
			if !definitionFlow() {
				return
			}
			completionFlow()
			if dead {
				return
			}
			phase = ""
		}
		// a file that declares classes is deleted on disk (the only event of its batch): what it declared is gone, for the
		// variables of other classes too (inherited members)
		if rd := r.Fork(0x64656c); rd.Chance(1, 3) {
			var cands []string
			for f := range w.Files {
				if strings.HasPrefix(f, "types") {
					cands = append(cands, f)
				}
			}
			sort.Strings(cands)
			if len(cands) > 1 {
				victim := cands[rd.Intn(len(cands))]
				ws.Delete(victim)
				srv.Notify("workspace/didChangeWatchedFiles", map[string]interface{}{"changes": []interface{}{map[string]interface{}{"uri": ws.URI(victim), "type": 3}}})
				if srv.Fence() != nil {
					c.Report("server-down-on-annotation-graph", "the server died when a file declaring classes was deleted", witness(nil))
					return
				}
				for nm, cl := range w.Classes {
					if cl.File == victim {
						delete(w.Classes, nm)
					}
				}
				delete(files, victim)
				phase = "|after-class-file-deleted"
				// the use file keeps its typed declarations only: a member that the file itself reads on a variable is
				// offered as "seen in code" whatever the class declares (by design), which would hide a stale class
				base = base[:declEnd]
				c.Count("class_file_deletions", 1)
				completionFlow()
			}
		}
		if wi < 2 {
			c.Sample(map[string]interface{}{"files": files})
		}
	})
	c.Finish("generated class hierarchies (2-10 classes, up to 3 parents each, diamonds, every 4th graph with cycles and cyclic aliases, classes spread over 1-3 files, every third graph with one class declared in two parts in two files, children that declare a parent's field again, class table "+
		"variables with methods / assigned members) and variables typed by ---@type through a class, an alias, an alias of an alias, T[], table<K,V>, an alias of an array, an alias of a table<K,V> and an alias of that alias; "+
		"flow (i): go-to-definition on v.member for every expected field must lead to its ---@field name; flow (ii): the document is edited to end in `v.` and completion with "+
		"trigger '.' must return exactly the transitive field set plus the documented assigned members (superset for cyclic graphs; cyclic aliases only have to return). "+
		"distinct_nontrivial = distinct (workspace, member or variable) queried", 100)
}
