package main

// R-text: a text buffer with LSP semantics. Lines end at LF, CRLF or lone CR;
// characters are UTF-16 code units. Independent of LuaHelper's file_cache.go.

import (
	"unicode/utf8"
)

type RText struct {
	B []byte
}

func NewRText(s string) *RText { return &RText{B: []byte(s)} }

func (t *RText) String() string { return string(t.B) }

// LineStarts returns the byte offset of the start of every line (always at least one line).
func lineStarts(b []byte) []int {
	starts := []int{0}
	for i := 0; i < len(b); i++ {
		switch b[i] {
		case '\n':
			starts = append(starts, i+1)
		case '\r':
			if i+1 < len(b) && b[i+1] == '\n' {
				i++
			}
			starts = append(starts, i+1)
		}
	}
	return starts
}

// lineEnd returns the offset where the content of the line starting at s ends (before its terminator).
func lineContentEnd(b []byte, s int) int {
	i := s
	for i < len(b) && b[i] != '\n' && b[i] != '\r' {
		i++
	}
	return i
}

func utf16Len(b []byte) int {
	n := 0
	for i := 0; i < len(b); {
		r, sz := utf8.DecodeRune(b[i:])
		if r >= 0x10000 {
			n += 2
		} else {
			n++
		}
		i += sz
	}
	return n
}

// Lines returns the number of lines.
func (t *RText) Lines() int { return len(lineStarts(t.B)) }

// LineLen16 returns the UTF-16 length of line l (without terminator).
func (t *RText) LineLen16(l int) int {
	st := lineStarts(t.B)
	if l < 0 || l >= len(st) {
		return -1
	}
	return utf16Len(t.B[st[l]:lineContentEnd(t.B, st[l])])
}

// Offset converts an LSP position to a byte offset; ok=false when the position is outside the text
// or inside a surrogate pair. A character beyond the line end clamps to the line end (LSP 3.x).
func (t *RText) Offset(p Position) (int, bool) {
	st := lineStarts(t.B)
	if p.Line < 0 || p.Line >= len(st) {
		return 0, false
	}
	i := st[p.Line]
	end := lineContentEnd(t.B, i)
	col := 0
	for i < end {
		if col == p.Character {
			return i, true
		}
		r, sz := utf8.DecodeRune(t.B[i:])
		if r >= 0x10000 {
			col += 2
			if col-1 == p.Character {
				return 0, false
			}
		} else {
			col++
		}
		i += sz
	}
	if col == p.Character {
		return i, true
	}
	return 0, false
}

// PosAt converts a byte offset (on a rune boundary) to an LSP position.
func (t *RText) PosAt(off int) Position {
	return posAt(t.B, off)
}

func posAt(b []byte, off int) Position {
	line, ls := 0, 0
	for i := 0; i < off && i < len(b); i++ {
		switch b[i] {
		case '\n':
			line++
			ls = i + 1
		case '\r':
			if i+1 < len(b) && b[i+1] == '\n' {
				if i+1 < off {
					i++
				} else {
					// offset between CR and LF: report as end of line content
					return Position{line, utf16Len(b[ls:i])}
				}
			}
			line++
			ls = i + 1
		}
	}
	return Position{line, utf16Len(b[ls:off])}
}

// Splice replaces the range by text. ok=false if the range is not addressable.
func (t *RText) Splice(r Range, text string) bool {
	a, ok1 := t.Offset(r.Start)
	b, ok2 := t.Offset(r.End)
	if !ok1 || !ok2 || b < a {
		return false
	}
	nb := make([]byte, 0, len(t.B)-(b-a)+len(text))
	nb = append(nb, t.B[:a]...)
	nb = append(nb, text...)
	nb = append(nb, t.B[b:]...)
	t.B = nb
	return true
}

// Boundaries returns every byte offset a conformant client can address: rune boundaries that are
// not between CR and LF.
func (t *RText) Boundaries() []int {
	var out []int
	for i := 0; i <= len(t.B); {
		if !(i > 0 && i < len(t.B) && t.B[i-1] == '\r' && t.B[i] == '\n') {
			out = append(out, i)
		}
		if i == len(t.B) {
			break
		}
		_, sz := utf8.DecodeRune(t.B[i:])
		i += sz
	}
	return out
}

// Slice16 returns the text of one line between UTF-16 columns [c0,c1) or ok=false.
func sliceRange(b []byte, r Range) (string, bool) {
	t := &RText{B: b}
	a, ok1 := t.Offset(r.Start)
	e, ok2 := t.Offset(r.End)
	if !ok1 || !ok2 || e < a {
		return "", false
	}
	return string(b[a:e]), true
}
