package main

// genlua: grammar-directed generator of Lua programs as token lists, rendered to text with a chosen
// trivia policy. Valid by construction for the reference grammar; the run-time oracle re-checks this
// with R-parse (a disagreement is a harness inconsistency, never a violation).

import (
	"fmt"
	"strings"
	"sync"
)

type GenCfg struct {
	MaxDepth    int  // statement nesting
	ExpDepth    int  // expression nesting
	Stats       int  // statements per block (max)
	Unique      bool // every declaration gets a fresh name
	NamePool    []string
	GlobalPool  []string
	Builtins    []string
	Goto        bool
	Attribs     bool
	Ops54       bool // // & | ~ << >>
	Methods     bool
	NumeralZoo  bool
	StringZoo   bool
	Varargs     bool
	GlobalFuncs bool
	Requires    []string // module strings that may be required
	FilePrefix  string   // prefix for unique names
	NoGlobalWrites bool
	NoLongArgs  bool // no long-bracket string call arguments (column bookkeeping is C04's business)
}

func DefaultGenCfg() GenCfg {
	return GenCfg{MaxDepth: 3, ExpDepth: 3, Stats: 5,
		NamePool:   []string{"a", "b", "c", "x", "y", "val", "idx", "t"},
		GlobalPool: []string{"G1", "G2", "G3", "Gfn", "Gtab"},
		Builtins:   []string{"print", "pairs", "ipairs", "type", "tostring", "math", "string", "table"},
		Goto:       true, Attribs: true, Ops54: true, Methods: true, NumeralZoo: true, StringZoo: true, Varargs: true, GlobalFuncs: true}
}

const NL = "\n" // line-break hint token

type Gen struct {
	r        *Rng
	cfg      GenCfg
	toks     []string
	scopes   [][]string // visible local names per block
	consts   map[string]int
	loops    []int  // loop depth per function
	varargs  []bool // vararg flag per function
	labels   [][]string
	depth    int
	uniq     int
	labelN   int
	neverWrite map[string]bool
	noFunc   int // >0: no function literals (inside assignment targets)
	Budget   int // soft cap on emitted tokens (0 = none)
	PendingDefs []GDef // single global definitions to plant at top level of this chunk
	knownFuncs  []knownFunc
}

// knownFunc: a function defined by a statement earlier in the chunk (for calls with a definite arity relation)
type knownFunc struct {
	name    string
	nparams int
	vararg  bool
	local   bool
}

// GDef plans one definition of a global: Style 0 `G = exp`, 1 `function G() end`, 2 inside a local function body.
type GDef struct {
	Name  string
	Style int
}

func NewGen(r *Rng, cfg GenCfg) *Gen {
	return &Gen{r: r, cfg: cfg, loops: []int{0}, varargs: []bool{true}, consts: map[string]int{}}
}

func (g *Gen) emit(ts ...string) { g.toks = append(g.toks, ts...) }

func (g *Gen) fresh(base string) string {
	g.uniq++
	return fmt.Sprintf("%s%s%d", g.cfg.FilePrefix, base, g.uniq)
}

func (g *Gen) newLocalName() string {
	if g.cfg.Unique {
		return g.fresh("v")
	}
	return g.r.Pick(g.cfg.NamePool)
}

func (g *Gen) pushScope() { g.scopes = append(g.scopes, nil) }
func (g *Gen) popScope() {
	top := g.scopes[len(g.scopes)-1]
	for _, n := range top {
		if g.consts[n] > 0 {
			g.consts[n]--
		}
	}
	g.scopes = g.scopes[:len(g.scopes)-1]
}
func (g *Gen) declare(n string) { g.scopes[len(g.scopes)-1] = append(g.scopes[len(g.scopes)-1], n) }

func (g *Gen) visible() []string {
	var out []string
	for _, s := range g.scopes {
		out = append(out, s...)
	}
	return out
}

func (g *Gen) isVisibleLocal(n string) bool {
	for _, v := range g.visible() {
		if v == n {
			return true
		}
	}
	return false
}

func (g *Gen) someVar() string {
	vis := g.visible()
	k := g.r.Intn(10)
	if len(vis) > 0 && k < 6 {
		return vis[g.r.Intn(len(vis))]
	}
	if k < 8 && len(g.cfg.GlobalPool) > 0 {
		return g.r.Pick(g.cfg.GlobalPool)
	}
	if len(g.cfg.Builtins) > 0 {
		return g.r.Pick(g.cfg.Builtins)
	}
	return "print"
}

// assignable returns a name that may be assigned (never a const/close local).
func (g *Gen) assignable() string {
	for try := 0; try < 8; try++ {
		vis := g.visible()
		if len(vis) > 0 && g.r.Chance(7, 10) {
			n := vis[g.r.Intn(len(vis))]
			if g.consts[n] == 0 {
				return n
			}
			continue
		}
		if !g.cfg.NoGlobalWrites && len(g.cfg.GlobalPool) > 0 {
			n := g.r.Pick(g.cfg.GlobalPool)
			if g.consts[n] == 0 && !g.neverWrite[n] {
				return n
			}
		}
	}
	n := g.fresh("w")
	if g.cfg.NoGlobalWrites {
		// declare it first so that it is a local write
		g.emit("local", n, NL)
		g.declare(n)
	}
	return n
}

var numeralZoo = []string{"0", "1", "42", "007", "3.14", "3.", ".5", "1e3", "1E-3", "2e+10", "0.5e1", "0x10", "0XfF", "0xA.8p1", "0x.8p-2",
	"0X1P+4", "0x1.8", "9223372036854775807", "9223372036854775808", "1e308", "100LL", "0x7fULL", "12ull", "3ll", "0xffLL"}

var stringZoo = []string{`"plain"`, `'single'`, `"esc\n\t\\\"q"`, `'it\'s'`, `"\65\066\x41"`, `"\u{48}\u{20AC}\u{1F600}"`, `"a\z
   b"`, "\"line\\\ncont\"", `""`, `''`, `[[long]]`, "[[\nfirst newline skipped]]", `[==[with ]] and ]=] inside]==]`, `[=[
multi
line]=]`, `"tab	inside"`, `"é中😀"`, `'\a\b\f\v\r'`, `"\0\00\000"`, `"\255"`, "[[\n  欢迎使用 ]]", "[==[é\n中文 😀 ]==]", "[=[\n\nтекст]=]"}

// GenNumeral draws a valid numeral of the supported language: decimal / hexadecimal integers of any magnitude around the
// 32-, 53-, 63- and 64-bit boundaries, decimal and hexadecimal floats with exponents, and LuaJIT 64-bit literals (LL / ULL
// in any letter case) whose value fits the 64-bit type.
func GenNumeral(r *Rng) string {
	digits := func(alpha string, n int) string {
		b := make([]byte, n)
		for i := range b {
			b[i] = alpha[r.Intn(len(alpha))]
		}
		return string(b)
	}
	const dec, hex = "0123456789", "0123456789abcdefABCDEF"
	boundaryDec := []string{"2147483647", "2147483648", "4294967295", "4294967296", "9007199254740992", "9007199254740993",
		"9223372036854775807", "9223372036854775808", "18446744073709551615", "18446744073709551616", "340282366920938463463374607431768211456"}
	boundaryHex := []string{"7fffffff", "80000000", "ffffffff", "100000000", "7fffffffffffffff", "8000000000000000", "ffffffffffffffff",
		"FFFFFFFFFFFFFFFF", "DEADBEEFCAFEBABE", "10000000000000000", "ffffffffffffffffffff"}
	suffix := func() string { return r.Pick([]string{"LL", "ll", "ULL", "ull", "Ull", "uLL", "Ll"}) }
	switch r.Intn(9) {
	case 0:
		return r.Pick(boundaryDec)
	case 1:
		return r.Pick([]string{"0x", "0X"}) + r.Pick(boundaryHex)
	case 2:
		return digits(dec, r.Range(1, 22))
	case 3:
		return r.Pick([]string{"0x", "0X"}) + digits(hex, r.Range(1, 20))
	case 4: // decimal float
		s := digits(dec, r.Range(0, 6))
		f := digits(dec, r.Range(0, 6))
		if s == "" && f == "" {
			s = "1"
		}
		out := s + "." + f
		if r.Bool() {
			out += r.Pick([]string{"e", "E"}) + r.Pick([]string{"", "+", "-"}) + digits(dec, r.Range(1, 3))
		}
		return out
	case 5: // hexadecimal float
		s := digits(hex, r.Range(0, 5))
		f := digits(hex, r.Range(0, 5))
		if s == "" && f == "" {
			s = "a"
		}
		out := "0x" + s
		if f != "" || r.Bool() {
			out += "." + f
		}
		if r.Bool() || (f == "" && s == "") {
			out += r.Pick([]string{"p", "P"}) + r.Pick([]string{"", "+", "-"}) + digits(dec, r.Range(1, 3))
		}
		if out == "0x." {
			out = "0x.8"
		}
		return out
	case 6: // 64-bit literal, decimal: LL up to 2^63-1, ULL up to 2^64-1
		sfx := suffix()
		if strings.HasPrefix(strings.ToUpper(sfx), "U") {
			return r.Pick([]string{"0", "1", "4294967296", "9223372036854775807", "9223372036854775808", "18446744073709551615", digits("123456789", r.Range(1, 19))}) + sfx
		}
		return r.Pick([]string{"0", "7", "2147483648", "9223372036854775807", digits("12345678", r.Range(1, 18))}) + sfx
	case 7: // 64-bit literal, hexadecimal: any 1-16 hex digits, bit 63 included
		return r.Pick([]string{"0x", "0X"}) + r.Pick([]string{"0", "ff", "7fffffffffffffff", "8000000000000000", "ffffffffffffffff", "DEADBEEFCAFEBABE", digits(hex, r.Range(1, 16))}) + suffix()
	}
	return digits(dec, r.Range(1, 3)) + r.Pick([]string{"e", "E"}) + r.Pick([]string{"", "+", "-"}) + digits(dec, r.Range(1, 3))
}

func (g *Gen) literal() string {
	switch g.r.Intn(8) {
	case 0:
		return "nil"
	case 1:
		return "true"
	case 2:
		return "false"
	case 3, 4:
		if g.cfg.NumeralZoo && g.r.Chance(1, 2) {
			if g.r.Chance(1, 3) {
				return GenNumeral(g.r)
			}
			return g.r.Pick(numeralZoo)
		}
		return fmt.Sprint(g.r.Intn(100))
	default:
		if g.cfg.StringZoo && g.r.Chance(1, 2) {
			return g.r.Pick(stringZoo)
		}
		return fmt.Sprintf("\"s%d\"", g.r.Intn(50))
	}
}

var binops53 = []string{"+", "-", "*", "/", "%", "^", "..", "==", "~=", "<", "<=", ">", ">=", "and", "or"}
var binops54 = []string{"//", "&", "|", "~", "<<", ">>"}

func (g *Gen) over() bool { return g.Budget > 0 && len(g.toks) > g.Budget }

func (g *Gen) exp(d int) {
	if d <= 0 || g.over() {
		if g.r.Bool() {
			g.emit(g.literal())
		} else {
			g.emit(g.someVar())
		}
		return
	}
	switch g.r.Intn(16) {
	case 0, 1:
		g.emit(g.literal())
	case 2, 3:
		g.emit(g.someVar())
	case 4, 5:
		if g.r.Chance(1, 5) {
			// a flat chain of three or four simple operands under one operator (a..b..c, x+y+z, p and q or r)
			op := g.r.Pick([]string{"..", "..", "+", "and", "or"})
			n := g.r.Range(3, 4)
			for i := 0; i < n; i++ {
				if i > 0 {
					g.emit(op)
				}
				switch g.r.Intn(4) {
				case 0:
					g.emit(g.literal())
				case 1:
					g.prefixexp(d-1, true)
				default:
					g.emit(g.someVar())
				}
			}
			break
		}
		g.exp(d - 1)
		ops := binops53
		if g.cfg.Ops54 && g.r.Chance(1, 3) {
			ops = binops54
		}
		g.emit(g.r.Pick(ops))
		g.exp(d - 1)
	case 6:
		ops := []string{"-", "not", "#"}
		if g.cfg.Ops54 {
			ops = append(ops, "~")
		}
		op := g.r.Pick(ops)
		g.emit(op)
		// "- -x" must not become a comment: the renderer separates tokens, fine
		g.exp(d - 1)
	case 7:
		g.emit("(")
		g.exp(d - 1)
		g.emit(")")
	case 8, 9:
		g.prefixexp(d-1, true)
	case 10:
		g.prefixexp(d-1, false)
	case 11:
		g.function(d - 1)
	case 12, 13:
		g.table(d - 1)
	case 14:
		if g.cfg.Varargs && g.varargs[len(g.varargs)-1] {
			g.emit("...")
		} else {
			g.emit(g.literal())
		}
	default:
		g.emit(g.someVar())
	}
}

// prefixexp emits var / call / paren chains; call=true forces the last suffix to be a call.
func (g *Gen) prefixexp(d int, call bool) {
	if g.r.Chance(1, 8) {
		g.emit("(")
		g.exp(d)
		g.emit(")")
	} else {
		g.emit(g.someVar())
	}
	n := g.r.Range(0, 2)
	for i := 0; i < n; i++ {
		g.suffix(d, false)
	}
	if call {
		g.suffix(d, true)
	}
}

var memberPool = []string{"f", "g", "field", "n", "x"}

func (g *Gen) suffix(d int, call bool) {
	k := g.r.Intn(6)
	if call {
		k = 3 + g.r.Intn(3)
	}
	switch k {
	case 0, 1:
		g.emit(".", g.r.Pick(memberPool))
	case 2:
		g.emit("[")
		g.exp(d)
		g.emit("]")
	case 3:
		g.args(d)
	case 4:
		if g.cfg.Methods {
			g.emit(":", g.r.Pick([]string{"m", "get", "set"}))
		}
		g.args(d)
	default:
		g.args(d)
	}
}

func (g *Gen) args(d int) {
	switch g.r.Intn(8) {
	case 0:
		if g.cfg.NoLongArgs {
			g.emit(g.r.Pick([]string{`"str"`, `'s'`}))
		} else {
			g.emit(g.r.Pick([]string{`"str"`, `'s'`, `[[long arg]]`}))
		}
	case 1:
		g.table(d)
	default:
		g.emit("(")
		n := g.r.Range(0, 3)
		for i := 0; i < n; i++ {
			if i > 0 {
				g.emit(",")
			}
			g.exp(d)
		}
		g.emit(")")
	}
}

func (g *Gen) table(d int) {
	g.emit("{")
	n := g.r.Range(0, 4)
	for i := 0; i < n; i++ {
		switch g.r.Intn(3) {
		case 0:
			g.exp(d)
		case 1:
			if g.r.Bool() {
				g.emit(fmt.Sprintf("k%d", i), "=")
			} else {
				// the same small pool the member accesses draw from, so that tables have known members that are read,
				// called and assigned again later
				g.emit(g.r.Pick(memberPool), "=")
			}
			g.exp(d)
		case 2:
			g.emit("[")
			switch g.r.Intn(4) {
			case 0:
				g.emit(fmt.Sprintf("%d", i+10))
			case 1:
				g.emit(fmt.Sprintf("\"key%d\"", i))
			case 2:
				// a computed key: a variable read (and nothing else) inside the brackets
				g.emit(g.someVar())
			default:
				g.noFunc++
				g.exp(1)
				g.noFunc--
			}
			g.emit("]", "=")
			g.exp(d)
		}
		if i < n-1 {
			g.emit(g.r.Pick([]string{",", ",", ";"}))
		} else if g.r.Chance(1, 4) {
			g.emit(g.r.Pick([]string{",", ";"}))
		}
	}
	g.emit("}")
}

func (g *Gen) function(d int) {
	if g.noFunc > 0 {
		g.emit(g.literal())
		return
	}
	g.emit("function")
	g.funcbody(false)
}

func (g *Gen) funcbody(method bool) (nparams int, vararg bool) {
	g.emit("(")
	g.pushScope()
	if method {
		g.declare("self")
	}
	n := g.r.Range(0, 3)
	va := false
	for i := 0; i < n; i++ {
		if i > 0 {
			g.emit(",")
		}
		p := g.newLocalName()
		if !g.cfg.Unique {
			// duplicate parameter names are legal but make binding ambiguous for oracles: avoid
			dup := false
			for _, q := range g.scopes[len(g.scopes)-1] {
				if q == p {
					dup = true
				}
			}
			if dup {
				p = g.fresh("p")
			}
		}
		g.emit(p)
		g.declare(p)
	}
	if g.cfg.Varargs && g.r.Chance(1, 4) {
		if n > 0 {
			g.emit(",")
		}
		g.emit("...")
		va = true
	}
	g.emit(")", NL)
	g.loops = append(g.loops, 0)
	g.varargs = append(g.varargs, va)
	g.depth++
	g.blockBody(false)
	g.depth--
	g.loops = g.loops[:len(g.loops)-1]
	g.varargs = g.varargs[:len(g.varargs)-1]
	g.popScope()
	g.emit("end")
	return n, va
}

// blockBody emits statements into the current scope (caller pushes/pops).
func (g *Gen) blockBody(allowRet bool) {
	n := g.r.Range(0, g.cfg.Stats)
	if g.depth >= g.cfg.MaxDepth {
		n = g.r.Range(0, 2)
	}
	if g.over() {
		n = 0
	}
	for i := 0; i < n; i++ {
		if g.depth == 0 && len(g.PendingDefs) > 0 && g.r.Chance(1, 3) {
			g.plantDef()
		}
		g.stat()
		g.emit(NL)
	}
	for g.depth == 0 && len(g.PendingDefs) > 0 {
		g.plantDef()
	}
	if g.r.Chance(1, 4) || allowRet && g.r.Chance(1, 3) {
		g.emit("return")
		k := g.r.Range(0, 2)
		for i := 0; i < k; i++ {
			if i > 0 {
				g.emit(",")
			}
			g.exp(g.cfg.ExpDepth - 1)
		}
		if g.r.Chance(1, 4) {
			g.emit(";")
		}
		g.emit(NL)
	}
}

func (g *Gen) plantDef() {
	d := g.PendingDefs[0]
	g.PendingDefs = g.PendingDefs[1:]
	switch d.Style {
	case 1:
		g.emit("function", d.Name)
		g.funcbody(false)
	case 2:
		fn := g.fresh("definer")
		g.emit("local", "function", fn, "(", ")", NL, d.Name, "=")
		g.exp(1)
		g.emit(NL, "end", NL, fn, "(", ")")
		g.declare(fn)
	default:
		g.emit(d.Name, "=")
		g.exp(g.cfg.ExpDepth)
	}
	g.emit(NL)
}

func (g *Gen) scopedBlock(loop bool) {
	g.pushScope()
	if loop {
		g.loops[len(g.loops)-1]++
	}
	g.depth++
	g.blockBody(false)
	g.depth--
	if loop {
		g.loops[len(g.loops)-1]--
	}
	g.popScope()
}

func (g *Gen) stat() {
	ed := g.cfg.ExpDepth
	deep := g.depth < g.cfg.MaxDepth
	k := g.r.Intn(24)
	switch {
	case k < 5: // local
		g.emit("local")
		n := g.r.Range(1, 3)
		var names []string
		var attrs []string
		for i := 0; i < n; i++ {
			if i > 0 {
				g.emit(",")
			}
			nm := g.newLocalName()
			names = append(names, nm)
			g.emit(nm)
			at := ""
			if g.cfg.Attribs && g.r.Chance(1, 8) {
				at = "const"
				if i == n-1 && g.r.Chance(1, 3) {
					at = "close"
				}
				g.emit("<", at, ">")
			}
			attrs = append(attrs, at)
		}
		hasClose := false
		for _, a := range attrs {
			if a == "close" {
				hasClose = true
			}
		}
		if g.r.Chance(5, 6) || hasClose {
			g.emit("=")
			m := g.r.Range(1, n)
			if hasClose {
				m = n
			}
			for i := 0; i < m; i++ {
				if i > 0 {
					g.emit(",")
				}
				if attrs[i] == "close" {
					g.emit("nil")
				} else {
					g.exp(ed)
				}
			}
		}
		for i, nm := range names {
			g.declare(nm)
			if attrs[i] != "" {
				g.consts[nm]++
			} else if g.consts[nm] > 0 {
				// a non-const redeclaration shadows a const of the same name: forbid assignment anyway (conservative)
				g.consts[nm]++
			}
		}
	case k < 8: // assignment
		if g.r.Chance(1, 6) {
			// a table with known members, then a multiple assignment that re-assigns those members with one value fewer
			// than targets (the last value, typically a call, is expected to fill the rest)
			tk := g.fresh("kt")
			keys := []string{g.r.Pick(memberPool), g.r.Pick(memberPool)}
			g.emit("local", tk, "=", "{", keys[0], "=")
			g.exp(1)
			if keys[1] != keys[0] {
				g.emit(",", keys[1], "=")
				g.exp(1)
			}
			g.emit("}", NL)
			g.declare(tk)
			nt := g.r.Range(2, 3)
			lead := g.r.Bool()
			for i := 0; i < nt; i++ {
				if i > 0 {
					g.emit(",")
				}
				if i == 0 && lead {
					g.emit(g.assignable())
				} else {
					g.emit(tk, ".", keys[g.r.Intn(2)])
				}
			}
			g.emit("=")
			for i := 0; i < nt-1; i++ {
				if i > 0 {
					g.emit(",")
				}
				g.exp(1)
			}
			break
		}
		n := g.r.Range(1, 3)
		for i := 0; i < n; i++ {
			if i > 0 {
				g.emit(",")
			}
			if g.r.Chance(1, 3) {
				// no function literals inside assignment targets: LuaHelper does not analyse them there and
				// real programs do not write them (not explored, see DESIGN C05)
				g.noFunc++
				g.emit(g.someVar())
				if g.r.Bool() { // otherwise a plain two-level target v.k, k from the pool table keys come from
					g.suffix(ed-1, false)
				}
				g.noFunc--
				// ensure the last suffix is an index, not a call: a field, or a computed key that reads variables
				if g.r.Chance(1, 3) {
					g.emit("[")
					if g.r.Bool() {
						g.emit(g.someVar())
					} else {
						g.noFunc++ // (no function literals inside assignment targets, see above)
						g.exp(1)
						g.noFunc--
					}
					g.emit("]")
				} else {
					g.emit(".", g.r.Pick([]string{"fld", "fld", "f", "n", "x"}))
				}
			} else {
				g.emit(g.assignable())
			}
		}
		g.emit("=")
		m := g.r.Range(1, max(2, n)) // fewer, as many, or (for one target) more values than targets
		for i := 0; i < m; i++ {
			if i > 0 {
				g.emit(",")
			}
			g.exp(ed)
		}
	case k < 11: // call statement
		if len(g.cfg.GlobalPool) > 0 && g.r.Chance(1, 8) {
			// a field of a global table, and on the next line - about the same columns - a use of a variable that has
			// the field's name
			if vis := g.visible(); len(vis) > 0 {
				nm := vis[g.r.Intn(len(vis))]
				g.emit(g.r.Pick(g.cfg.GlobalPool), ".", nm, "=")
				g.emit(g.literal())
				g.emit(NL, g.r.Pick([]string{"print", "tostring", "type"}), "(", nm, ")")
				break
			}
		}
		if len(g.knownFuncs) > 0 && g.r.Chance(1, 3) {
			// a call of a function defined earlier in this chunk, with fewer, as many, or more arguments than it has
			// named parameters
			kf := g.knownFuncs[g.r.Intn(len(g.knownFuncs))]
			if !kf.local || g.isVisibleLocal(kf.name) {
				g.emit(kf.name, "(")
				na := kf.nparams + g.r.Range(-1, 2)
				for i := 0; i < na; i++ {
					if i > 0 {
						g.emit(",")
					}
					g.exp(1)
				}
				g.emit(")")
				break
			}
		}
		g.prefixexp(ed-1, true)
	case k == 11 && deep:
		g.emit("do", NL)
		g.scopedBlock(false)
		g.emit("end")
	case k == 12 && deep:
		g.emit("while")
		g.exp(ed)
		g.emit("do", NL)
		g.scopedBlock(true)
		g.emit("end")
	case k == 13 && deep:
		g.emit("repeat", NL)
		g.pushScope()
		g.loops[len(g.loops)-1]++
		g.depth++
		g.blockBody(false)
		g.depth--
		g.loops[len(g.loops)-1]--
		g.emit("until")
		g.exp(ed) // sees the body's locals
		g.popScope()
	case (k == 14 || k == 15) && deep:
		g.emit("if")
		g.exp(ed)
		g.emit("then", NL)
		g.scopedBlock(false)
		n := g.r.Range(0, 2)
		for i := 0; i < n; i++ {
			g.emit("elseif")
			g.exp(ed)
			g.emit("then", NL)
			g.scopedBlock(false)
		}
		if g.r.Bool() {
			g.emit("else", NL)
			g.scopedBlock(false)
		}
		g.emit("end")
	case k == 16 && deep:
		v := g.newLocalName()
		g.emit("for", v, "=")
		g.exp(ed - 1)
		g.emit(",")
		g.exp(ed - 1)
		if g.r.Chance(1, 3) {
			g.emit(",")
			g.exp(ed - 1)
		}
		g.emit("do", NL)
		g.pushScope()
		g.declare(v)
		g.loops[len(g.loops)-1]++
		g.depth++
		g.blockBody(false)
		g.depth--
		g.loops[len(g.loops)-1]--
		g.popScope()
		g.emit("end")
	case k == 17 && deep:
		n := g.r.Range(1, 3)
		var names []string
		g.emit("for")
		for i := 0; i < n; i++ {
			if i > 0 {
				g.emit(",")
			}
			nm := g.newLocalName()
			for _, q := range names {
				if q == nm {
					nm = g.fresh("k")
				}
			}
			names = append(names, nm)
			g.emit(nm)
		}
		g.emit("in")
		if g.r.Bool() {
			g.emit(g.r.Pick([]string{"pairs", "ipairs"}), "(")
			g.exp(ed - 1)
			g.emit(")")
		} else {
			m := g.r.Range(1, 3)
			for i := 0; i < m; i++ {
				if i > 0 {
					g.emit(",")
				}
				g.exp(ed - 1)
			}
		}
		g.emit("do", NL)
		g.pushScope()
		for _, nm := range names {
			g.declare(nm)
		}
		g.loops[len(g.loops)-1]++
		g.depth++
		g.blockBody(false)
		g.depth--
		g.loops[len(g.loops)-1]--
		g.popScope()
		g.emit("end")
	case k == 18 && deep: // function statement
		g.emit("function")
		method := false
		fnName := ""
		gname := g.r.Pick(g.cfg.GlobalPool)
		if g.cfg.GlobalFuncs && g.r.Chance(1, 2) && !g.cfg.NoGlobalWrites && !g.neverWrite[gname] && g.consts[gname] == 0 && !g.isVisibleLocal(gname) {
			g.emit(gname)
			fnName = gname
		} else {
			g.emit(g.someVar())
			n := g.r.Range(1, 2)
			for i := 0; i < n; i++ {
				g.emit(".", g.r.Pick([]string{"f", "g", "h"}))
			}
			if g.cfg.Methods && g.r.Bool() {
				g.emit(":", "meth")
				method = true
			}
		}
		np, va := g.funcbody(method)
		if !method && fnName != "" {
			g.knownFuncs = append(g.knownFuncs, knownFunc{fnName, np, va, false})
		}
	case k == 19 && deep:
		nm := g.newLocalName()
		g.emit("local", "function", nm)
		g.declare(nm) // visible in its own body
		np, va := g.funcbody(false)
		g.knownFuncs = append(g.knownFuncs, knownFunc{nm, np, va, true})
	case k == 20:
		if g.loops[len(g.loops)-1] > 0 && g.r.Bool() {
			// break must be last in practice only for 5.1; 5.2+ allows anywhere
			g.emit("break")
		} else {
			g.emit(";")
		}
	case k == 21 && g.cfg.Goto && deep:
		// goto continue-style: label at the end of a loop body
		g.labelN++
		lb := fmt.Sprintf("cont%d", g.labelN)
		g.emit("while")
		g.exp(1)
		g.emit("do", NL)
		g.pushScope()
		g.loops[len(g.loops)-1]++
		g.depth++
		g.emit("if")
		g.exp(1)
		g.emit("then", "goto", lb, "end", NL)
		g.blockBodyNoRet()
		g.depth--
		g.loops[len(g.loops)-1]--
		g.popScope()
		g.emit("::", lb, "::", NL, "end")
	case k == 22 && g.cfg.Goto:
		// backward goto
		g.labelN++
		lb := fmt.Sprintf("top%d", g.labelN)
		g.emit("::", lb, "::", NL)
		g.emit("if")
		g.exp(1)
		g.emit("then", "goto", lb, "end")
	default:
		g.prefixexp(ed-1, true)
	}
}

func (g *Gen) blockBodyNoRet() {
	n := g.r.Range(0, 2)
	for i := 0; i < n; i++ {
		// no locals between the goto and the label at block end is not required (label ends the block),
		// but keep it simple: call statements only
		g.prefixexp(1, true)
		g.emit(NL)
	}
}

// Chunk generates a whole file.
func (g *Gen) Chunk() []string {
	g.pushScope()
	for _, m := range g.cfg.Requires {
		if g.r.Bool() {
			nm := g.newLocalName()
			g.emit("local", nm, "=", "require", "(", fmt.Sprintf("%q", m), ")", NL)
			g.declare(nm)
		} else {
			g.emit("require", fmt.Sprintf("%q", m), NL)
		}
	}
	g.blockBody(true)
	g.popScope()
	return g.toks
}

// ---------------------------------------------------------------------------------------------
// Rendering

type Trivia struct {
	LineEnd   string // "\n", "\r\n", "\r"
	Rich      bool   // random tabs, comments, long comments, blank lines between tokens
	Tight     bool   // omit the space where two tokens cannot merge
	Pretty    bool   // conventional formatting: a.b, a:m(x), t[1], f(x), {k = v}, -x
	Indent    bool
	JoinPct   int // chance (percent) that a statement line break is written as a single space: one-line blocks, several blocks per line
	GluePct   int // chance (percent), with Pretty, that the space on either side of a binary operator or `=` / `,` is left out (a..b, x=1+y)
}

// needsSpace reports whether a and b would lex differently when written adjacent.
var needsSpaceCache sync.Map

func needsSpace(a, b string) bool {
	if a == "" || b == "" {
		return false
	}
	key := a + "\x00" + b
	if v, ok := needsSpaceCache.Load(key); ok {
		return v.(bool)
	}
	v := needsSpace0(a, b)
	needsSpaceCache.Store(key, v)
	return v
}

func needsSpace0(a, b string) bool {
	lx := RLex([]byte(a + b))
	if lx.Err != "" || len(lx.Comments) > 0 {
		return true
	}
	la := RLex([]byte(a))
	lb := RLex([]byte(b))
	if la.Err != "" || lb.Err != "" {
		return true
	}
	if len(lx.Toks) != len(la.Toks)+len(lb.Toks)-1 {
		return true
	}
	k := 0
	for _, t := range la.Toks[:len(la.Toks)-1] {
		if lx.Toks[k].Text != t.Text {
			return true
		}
		k++
	}
	for _, t := range lb.Toks[:len(lb.Toks)-1] {
		if lx.Toks[k].Text != t.Text {
			return true
		}
		k++
	}
	return false
}

var triviaComments = []string{"-- c", "--[[ block ]]", "--[==[ lvl ]] ]==]", "--", "---@x", "--[[\nmulti\n]]"}

// Render turns a token list into source text.
func Render(r *Rng, toks []string, tv Trivia) string {
	le := tv.LineEnd
	if le == "" {
		le = "\n"
	}
	var sb strings.Builder
	prev := ""
	prevprev := ""
	indent := 0
	atLineStart := true
	for _, t := range toks {
		if t == NL {
			if tv.JoinPct > 0 && !atLineStart && r.Intn(100) < tv.JoinPct {
				continue // the next token is separated by the normal inter-token space
			}
			sb.WriteString(le)
			atLineStart = true
			prev = ""
			prevprev = ""
			continue
		}
		sep := " "
		if tv.Indent && (t == "end" || t == "until" || t == "else" || t == "elseif" || t == "}") && indent > 0 {
			indent--
		}
		if atLineStart {
			sep = ""
			if tv.Indent {
				sep = strings.Repeat("  ", indent)
			}
		} else if tv.Pretty {
			if !prettySpace(prevprev, prev, t) && !needsSpace(prev, t) {
				sep = ""
			} else if tv.GluePct > 0 && (glueOps[prev] || glueOps[t]) && !needsSpace(prev, t) && r.Intn(100) < tv.GluePct {
				sep = ""
			}
		} else if tv.Tight && !needsSpace(prev, t) && r.Bool() {
			sep = ""
		}
		if tv.Rich && !atLineStart {
			switch r.Intn(14) {
			case 0:
				sep = "\t"
			case 1:
				sep = "  "
			case 2:
				sep = " --[[c]] "
			case 3:
				sep = " " + r.Pick(triviaComments[:3])
				// a short comment runs to the end of the line
				if strings.HasPrefix(sep, " -- ") {
					sep += le
				} else {
					sep += " "
				}
			case 4:
				sep = le
			case 5:
				sep = " --[=[ x ]=]"
				if needsSpace("]", t) {
					sep += " "
				}
			}
		}
		sb.WriteString(sep)
		// line breaks inside a token (backslash-newline and \z in short strings, long strings, long comments) are
		// written with the file's line ending in two files out of three, verbatim (LF) otherwise
		if le != "\n" && strings.Contains(t, "\n") && r.Intn(3) != 0 {
			sb.WriteString(strings.ReplaceAll(t, "\n", le))
		} else {
			sb.WriteString(t)
		}
		prevprev = prev
		prev = t
		atLineStart = false
		if tv.Indent {
			switch t {
			case "do", "then", "repeat", "else", "{", "function":
				indent++
			}
			if indent > 12 {
				indent = 12
			}
		}
	}
	return sb.String()
}

var glueOps = map[string]bool{"..": true, "+": true, "-": true, "*": true, "/": true, "//": true, "%": true, "^": true, "==": true, "~=": true, "<": true, "<=": true,
	">": true, ">=": true, "&": true, "|": true, "<<": true, ">>": true, "=": true, ",": true}

func isWordTok(t string) bool { return t != "" && (isAlpha(t[0]) || isDigit(t[0])) }

func isValueEnd(t string) bool {
	if t == "" {
		return false
	}
	if luaKeywords[t] {
		return t == "end" || t == "nil" || t == "true" || t == "false"
	}
	c := t[len(t)-1]
	return isAlnum(c) || c == ')' || c == ']' || c == '}' || c == '"' || c == '\'' || t == "..."
}

// prettySpace decides whether conventional formatting puts a space between prev and t.
func prettySpace(prevprev, prev, t string) bool {
	switch t {
	case ".", ":":
		return false
	case ",", ";", ")", "]":
		return false
	case "(":
		// call or function literal: no space; after keywords/operators: space
		if prev == "function" {
			return false
		}
		return !(isValueEnd(prev) && !luaKeywords[prev])
	case "[":
		return !(isValueEnd(prev) && !luaKeywords[prev])
	}
	switch prev {
	case ".", ":", "(", "[", "::":
		return false
	case "-", "#", "~":
		// unary when the token before it cannot end a value
		if !isValueEnd(prevprev) || (luaKeywords[prevprev] && prevprev != "end" && prevprev != "nil" && prevprev != "true" && prevprev != "false") {
			return false
		}
	}
	if t == "::" && !luaKeywords[prev] && isWordTok(prev) {
		return false
	}
	return true
}
