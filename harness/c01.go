package main

// C01 — the server never crashes or hangs, whatever the workspace or the client sends.
// Monitors: process liveness (exit status, stderr), every request answered (CPU-budget watchdog),
// hook H2 (values swallowed by the parser's recover()). Four workload lanes, all through the real
// server child process; a death is re-played alone on a fresh process before it counts.

import (
	"encoding/json"
	"fmt"
	"os"
	"path/filepath"
	"sort"
	"strings"
	"time"
)

type c01Step struct {
	Method string      `json:"method"`
	Params interface{} `json:"params"`
	Req    bool        `json:"request"`
}

type c01Case struct {
	Lane    string                 `json:"lane"`
	Label   string                 `json:"label"`
	Files   map[string]string      `json:"files"`
	Init    map[string]interface{} `json:"init_options,omitempty"`
	RawInit json.RawMessage        `json:"raw_initialize_params,omitempty"`
	Steps   []c01Step              `json:"steps"`
}

type c01Outcome struct {
	Kind   string // ok / died / hang / blocked / slow / initerror
	Crash  CrashInfo
	Events []string
	Step   int
	Sent   int
	Reqs   int
	InitEr string
}

// c01Run executes one case on a fresh server process.
func c01Run(c *Ctx, cs *c01Case, tag string) (out c01Outcome) {
	ws := c.NewWorkspace(cs.Files)
	defer ws.Remove()
	out = c01Outcome{Kind: "ok", Step: -1}
	opts := ServerOpts{Root: ws.Root, Init: cs.Init, Tag: tag}
	if cs.RawInit != nil {
		opts.RawInit = json.RawMessage(strings.ReplaceAll(string(cs.RawInit), "$ROOT", ws.Root))
	}
	srv, err := StartServer(opts)
	classify := func(err error) {
		switch err {
		case ErrHang:
			out.Kind = "hang"
			srv.Quit()
			srv.WaitDeath(3 * time.Second)
		case ErrBlocked:
			out.Kind = "blocked"
			srv.Quit()
			srv.WaitDeath(3 * time.Second)
		case ErrSlow:
			out.Kind = "slow"
		default:
			srv.WaitDeath(5 * time.Second)
			out.Kind = "died"
			out.Crash = srv.Crash()
		}
	}
	if srv == nil {
		out.Kind = "slow"
		return out
	}
	defer func() {
		out.Events = srv.Events()
		out.Sent = srv.Sent
		out.Reqs = srv.Requests
		srv.Close()
	}()
	if err != nil {
		classify(err)
		return out
	}
	if srv.InitErr != nil {
		// a rejected initialize is a legitimate answer to malformed settings
		out.InitEr = srv.InitErr.Message
		if e := srv.Fence(); e != nil {
			classify(e)
		}
		return out
	}
	repl := func(v interface{}) interface{} {
		b, _ := json.Marshal(v)
		s := strings.ReplaceAll(string(b), "$ROOT", ws.Root)
		return json.RawMessage(s)
	}
	pend := []*Pending{}
	pendM := []string{}
	var compAnswers [][]json.RawMessage // the item lists of the completion answers received so far
	flush := func() error {
		for i, p := range pend {
			rep, err := p.Wait()
			if err != nil {
				return err
			}
			if pendM[i] == "textDocument/completion" && rep.Err == nil {
				var items []json.RawMessage
				var obj struct {
					Items []json.RawMessage `json:"items"`
				}
				if json.Unmarshal(rep.Result, &items) != nil {
					if json.Unmarshal(rep.Result, &obj) == nil {
						items = obj.Items
					}
				}
				if len(items) > 0 {
					compAnswers = append(compAnswers, items)
				}
			}
		}
		pend = pend[:0]
		pendM = pendM[:0]
		return nil
	}
	for i, st := range cs.Steps {
		out.Step = i
		if st.Method == "$write" {
			// file system step: params = {"rel":..., "text":... | "delete":true}
			m := st.Params.(map[string]interface{})
			rel := m["rel"].(string)
			if del, _ := m["delete"].(bool); del {
				ws.Delete(rel)
			} else {
				ws.Write(rel, m["text"].(string))
			}
			continue
		}
		if st.Method == "$resolve" {
			// completionItem/resolve for an item of an answer received earlier in this session: params = {"which": ...}
			if err := flush(); err != nil {
				classify(err)
				return out
			}
			which, _ := st.Params.(map[string]interface{})["which"].(string)
			var item interface{}
			switch {
			case which == "garbage":
				item = st.Params.(map[string]interface{})["item"]
			case len(compAnswers) == 0:
				continue
			case which == "latest-first":
				item = compAnswers[len(compAnswers)-1][0]
			case which == "latest-last":
				l := compAnswers[len(compAnswers)-1]
				item = l[len(l)-1]
			default: // "stale-longest-last": the last item of the longest list answered before the latest one
				best := compAnswers[0]
				for _, l := range compAnswers[:len(compAnswers)-1] {
					if len(l) > len(best) {
						best = l
					}
				}
				item = best[len(best)-1]
			}
			p, err := srv.Send("completionItem/resolve", item)
			if err != nil {
				classify(err)
				return out
			}
			pend = append(pend, p)
			pendM = append(pendM, "completionItem/resolve")
			continue
		}
		if st.Req {
			p, err := srv.Send(st.Method, repl(st.Params))
			if err != nil {
				classify(err)
				return out
			}
			pend = append(pend, p)
			pendM = append(pendM, st.Method)
			if len(pend) >= 4 {
				if err := flush(); err != nil {
					classify(err)
					return out
				}
			}
		} else {
			if err := srv.Notify(st.Method, repl(st.Params)); err != nil {
				classify(err)
				return out
			}
		}
	}
	if err := flush(); err != nil {
		classify(err)
		return out
	}
	if err := srv.Fence(); err != nil {
		classify(err)
		return out
	}
	return out
}

// c01Judge reports violations for one outcome (re-playing deaths alone first).
func c01Judge(c *Ctx, cs *c01Case, out c01Outcome, tag string) {
	c.Count("server_processes", 1)
	c.Count("messages_sent", int64(out.Sent))
	c.Count("requests_answered_or_checked", int64(out.Reqs))
	c.Count("lane_"+cs.Lane, 1)
	for _, ev := range out.Events {
		c.Count("h2_swallowed_events", 1)
		sig := "parser-swallowed|" + h2Sig(ev)
		c.Report(sig, "the parser's recover() swallowed an internal fault: "+truncate(ev, 400), cs)
	}
	switch out.Kind {
	case "ok":
		return
	case "slow":
		c.Inconclusive(fmt.Sprintf("watchdog: case %s/%s exceeded the wall-clock cap without exhausting the CPU budget", cs.Lane, cs.Label))
		return
	case "hang", "blocked":
		// decided on CPU consumed, re-played once alone
		out2 := c01Run(c, cs, tag+"h")
		if out2.Kind == out.Kind {
			c.Report(fmt.Sprintf("%s|%s|step:%s", out.Kind, cs.Lane, c01StepMethod(cs, out.Step)),
				fmt.Sprintf("server %s at step %d (%s) of case %s/%s, reproduced on a fresh process", out.Kind, out.Step, c01StepMethod(cs, out.Step), cs.Lane, cs.Label), cs)
		} else {
			c.Inconclusive(fmt.Sprintf("a %s at step %d of %s/%s did not reproduce", out.Kind, out.Step, cs.Lane, cs.Label))
		}
		return
	case "died":
		for try := 0; try < 3; try++ {
			out2 := c01Run(c, cs, fmt.Sprintf("%sr%d", tag, try))
			if out2.Kind == "died" {
				c.Count("deaths_reproduced", 1)
				c.Report("crash|"+out2.Crash.Sig(), fmt.Sprintf("server died (%s) in lane %s case %s at step %d (%s); reproduced on a fresh process",
					out2.Crash.Detail, cs.Lane, cs.Label, out2.Step, c01StepMethod(cs, out2.Step)), cs)
				return
			}
		}
		c.Inconclusive(fmt.Sprintf("server died once (%s) in %s/%s but the death did not reproduce in 3 replays", out.Crash.Sig(), cs.Lane, cs.Label))
	}
}

func c01StepMethod(cs *c01Case, i int) string {
	if i < 0 || i >= len(cs.Steps) {
		return "initialize"
	}
	return cs.Steps[i].Method
}

func h2Sig(ev string) string {
	// VERIF-SWALLOWED where=.. file=".." type=.. value=".." frames=a;b;c
	typ, frames := "", ""
	if i := strings.Index(ev, " type="); i >= 0 {
		rest := ev[i+6:]
		if j := strings.Index(rest, " "); j >= 0 {
			typ = rest[:j]
		}
	}
	if i := strings.Index(ev, " frames="); i >= 0 {
		fs := strings.Split(ev[i+8:], ";")
		if len(fs) > 3 {
			fs = fs[:3]
		}
		frames = strings.Join(fs, ">")
	}
	val := ""
	if i := strings.Index(ev, " value="); i >= 0 {
		rest := ev[i+7:]
		if j := strings.Index(rest, " frames="); j >= 0 {
			val = reDigits.ReplaceAllString(rest[:j], "N")
		}
	}
	return typ + "|" + truncate(val, 60) + "|" + frames
}

// ---------------------------------------------------------------------------------------------
// request sweeps

var c01PosMethods = []string{"textDocument/definition", "textDocument/hover", "textDocument/references", "textDocument/rename",
	"textDocument/completion", "textDocument/signatureHelp", "textDocument/documentHighlight"}

var c01Triggers = []string{"", ".", ":", "\"", "'", "-", "@", "#", " ", "(", ","}

func c01PosRequest(method, uri string, p Position, r *Rng) c01Step {
	params := tdPos(uri, p.Line, p.Character)
	switch method {
	case "textDocument/references":
		params["context"] = map[string]interface{}{"includeDeclaration": r.Bool()}
	case "textDocument/rename":
		params["newName"] = r.Pick([]string{"renamed", "x", "end", "a.b", ""})
	case "textDocument/completion":
		tc := r.Pick(c01Triggers)
		ctx := map[string]interface{}{"triggerKind": 1}
		if tc != "" {
			ctx = map[string]interface{}{"triggerKind": 2, "triggerCharacter": tc}
		}
		params["context"] = ctx
	}
	return c01Step{Method: method, Params: params, Req: true}
}

func c01DocRequests(uri string) []c01Step {
	td := map[string]interface{}{"textDocument": map[string]interface{}{"uri": uri}}
	return []c01Step{
		{Method: "textDocument/documentSymbol", Params: td, Req: true},
		{Method: "luahelper/getVarColor", Params: map[string]interface{}{"uri": uri}, Req: true},
		{Method: "textDocument/codeLens", Params: td, Req: true},
		{Method: "textDocument/documentLink", Params: td, Req: true},
		{Method: "textDocument/documentColor", Params: td, Req: true},
	}
}

// positions a conformant client can send for text: every addressable position when the file is small,
// otherwise token boundaries plus a random sample.
func c01Positions(r *Rng, text string, max int) []Position {
	t := NewRText(text)
	bs := t.Boundaries()
	var offs []int
	if len(bs) <= max {
		offs = bs
	} else {
		seen := map[int]bool{}
		lx := RLex([]byte(text))
		for _, tk := range lx.Toks {
			for _, o := range []int{tk.Off, tk.End} {
				if !seen[o] && len(offs) < max*2/3 {
					seen[o] = true
					offs = append(offs, o)
				}
			}
		}
		for len(offs) < max {
			o := bs[r.Intn(len(bs))]
			if !seen[o] {
				seen[o] = true
				offs = append(offs, o)
			}
		}
	}
	var out []Position
	for _, o := range offs {
		// skip offsets that are not rune boundaries or split CRLF (not addressable)
		ok := false
		i := sort.SearchInts(bs, o)
		if i < len(bs) && bs[i] == o {
			ok = true
		}
		if ok {
			out = append(out, t.PosAt(o))
		}
	}
	return out
}

func c01OpenStep(uri, text string) c01Step {
	return c01Step{Method: "textDocument/didOpen", Params: map[string]interface{}{"textDocument": map[string]interface{}{
		"uri": uri, "languageId": "lua", "version": 1, "text": text}}}
}

func c01Sweep(r *Rng, rel, text string, maxPos int, methods []string) []c01Step {
	uri := "file://$ROOT/" + rel
	steps := []c01Step{c01OpenStep(uri, text)}
	for _, p := range c01Positions(r, text, maxPos) {
		for _, m := range methods {
			steps = append(steps, c01PosRequest(m, uri, p, r))
		}
	}
	steps = append(steps, c01DocRequests(uri)...)
	for _, q := range []string{"", "a", "G", "zz", text[:min(len(text), 3)]} {
		steps = append(steps, c01Step{Method: "workspace/symbol", Params: map[string]interface{}{"query": q}, Req: true})
	}
	return steps
}

// ---------------------------------------------------------------------------------------------
// lane A: content

func genBytesMutate(r *Rng, src string) (string, string) {
	b := []byte(src)
	kind := r.Intn(15)
	hostile := []string{"\x00", "\x80", "\xff", "\xc3", "\xe4\xb8", "\xf0\x9f\x98", "\xed\xa0\x80", "\xef\xbb\xbf", "#!", "\\", "\"", "'", "[[", "]]", "--[[", "--[==[", "]==]",
		"\r", "\n\r", "\\z", "\\x", "\\u{", "0x", "1e", "..", "...", "::", "<const>", "<close>", "goto", "---@", "---@class ", "---@type ", "---@alias A A", "\t", "\v", "\f"}
	switch kind {
	case 0, 1: // truncate (what typing produces)
		if len(b) == 0 {
			return "", "truncate"
		}
		lx := RLex(b)
		if len(lx.Toks) > 1 && r.Bool() {
			t := lx.Toks[r.Intn(len(lx.Toks))]
			cut := t.Off
			if r.Bool() {
				cut = t.End
			}
			if r.Chance(1, 4) && t.End > t.Off {
				cut = t.Off + r.Intn(t.End-t.Off)
			}
			return validUTF8Prefix(b[:cut]), "truncate-at-token"
		}
		return validUTF8Prefix(b[:r.Intn(len(b)+1)]), "truncate"
	case 2: // delete a token
		lx := RLex(b)
		if len(lx.Toks) > 1 {
			t := lx.Toks[r.Intn(len(lx.Toks)-1)]
			return string(b[:t.Off]) + string(b[t.End:]), "delete-token"
		}
	case 3: // duplicate a token
		lx := RLex(b)
		if len(lx.Toks) > 1 {
			t := lx.Toks[r.Intn(len(lx.Toks)-1)]
			return string(b[:t.End]) + " " + t.Text + string(b[t.End:]), "duplicate-token"
		}
	case 4, 5: // insert hostile fragment
		pos := 0
		if len(b) > 0 {
			pos = r.Intn(len(b) + 1)
		}
		frag := r.Pick(hostile)
		return string(b[:pos]) + frag + string(b[pos:]), "insert:" + fmt.Sprintf("%q", frag)
	case 6: // overwrite random bytes
		if len(b) > 0 {
			n := r.Range(1, 4)
			for i := 0; i < n; i++ {
				b[r.Intn(len(b))] = byte(r.Intn(256))
			}
			return string(b), "overwrite-bytes"
		}
	case 7: // change line endings
		le := r.Pick([]string{"\r\n", "\r", "\n\r"})
		return strings.ReplaceAll(src, "\n", le), "line-endings"
	case 8: // unterminated string / long bracket at EOF
		return src + r.Pick([]string{"\nlocal s = \"abc", "\nlocal s = 'abc\\", "\nlocal s = [[abc", "\nlocal s = [==[abc]]", "\n--[[ comment", "\nlocal s = \"\\", "\nx = 0x", "\nx = 1e", "\nx = 3..", "\nx = \"\\u{"}), "unterminated-at-eof"
	case 9: // many syntax errors
		return src + strings.Repeat("\n)(", r.Range(31, 80)), "many-errors"
	case 10: // swap two chunks
		if len(b) > 8 {
			i, j := r.Intn(len(b)/2), len(b)/2+r.Intn(len(b)/2)
			return string(b[j:]) + string(b[i:j]) + string(b[:i]), "rotate"
		}
	case 11: // BOM / shebang
		return r.Pick([]string{"\xef\xbb\xbf", "#!/usr/bin/lua\n", "#", "#\r"}) + src, "prefix"
	case 14: // replace an identifier by a parenthesised expression of another kind (a literal that spells a special name, a constructor, ...)
		lx := RLex(b)
		for _, t := range lx.Toks {
			if t.K == TName && r.Chance(1, 6) {
				return string(b[:t.Off]) + r.Pick([]string{`("_G")`, `("self")`, `("_ENV")`, `("x")`, `("a.b")`, `("!_G")`, `("")`, `(1)`, `(nil)`, `(true)`, `({})`, `(_G)`, `(...)`, `(function() end)`, `("_G").a`, `(_G)["_G"]`,
					`_G._G`, `_G["a.b"]`, `_ENV._G`}) + string(b[t.End:]), "name-to-parenthesised-expression"
			}
		}
	case 12: // replace identifiers by keywords
		lx := RLex(b)
		for _, t := range lx.Toks {
			if t.K == TName && r.Chance(1, 6) {
				return string(b[:t.Off]) + r.Pick([]string{"end", "function", "local", "nil", "...", "self", "_G", "_ENV", "require"}) + string(b[t.End:]), "name-to-keyword"
			}
		}
	}
	return src + "\n" + r.Pick(hostile), "append-hostile"
}

// validUTF8Prefix trims a truncated multi-byte sequence: LSP text is JSON, hence valid UTF-8 on the wire;
// files on disk keep arbitrary bytes.
func validUTF8Prefix(b []byte) string { return string(b) }

func c01DeepNesting(r *Rng) (string, string) {
	n := r.Pick([]string{"200", "2000"})
	depth := 200
	if n == "2000" {
		depth = 2000
	}
	switch r.Intn(8) {
	case 0:
		return "x = " + strings.Repeat("(", depth) + "1" + strings.Repeat(")", depth), "deep-parens-" + n
	case 1:
		return "x = " + strings.Repeat("{", depth) + strings.Repeat("}", depth), "deep-tables-" + n
	case 2:
		return strings.Repeat("do ", depth) + strings.Repeat("end ", depth), "deep-do-" + n
	case 3:
		return "x = " + strings.Repeat("function() return ", depth) + "1" + strings.Repeat(" end", depth), "deep-functions-" + n
	case 4:
		return "x = " + strings.Repeat("-", depth) + "1", "deep-unary-" + n
	case 5:
		return "x = a" + strings.Repeat(".b", depth) + "\nprint(a" + strings.Repeat(".b", depth) + ")", "deep-index-" + n
	case 6:
		return "x = f" + strings.Repeat("()", depth), "deep-calls-" + n
	default:
		return "x = " + strings.Repeat("1 .. ", depth) + "1" + "\ny = " + strings.Repeat("2 ^ ", depth) + "2", "deep-right-assoc-" + n
	}
}

func c01Corpus(c *Ctx) map[string]string {
	corpus := map[string]string{}
	for _, dir := range []string{filepath.Join(repoDir(), "luahelper-lsp", "testdata"), filepath.Join(verifHome(), "findings", "crash-corpus")} {
		filepath.Walk(dir, func(p string, info os.FileInfo, err error) error {
			if err == nil && !info.IsDir() && strings.HasSuffix(p, ".lua") {
				if b, err := os.ReadFile(p); err == nil {
					corpus[strings.ReplaceAll(strings.TrimPrefix(p, dir+"/"), "/", "_")] = string(b)
				}
			}
			return nil
		})
	}
	return corpus
}

func c01LaneA(c *Ctx, root *Rng, n int) []*c01Case {
	var cases []*c01Case
	corpus := c01Corpus(c)
	names := make([]string, 0, len(corpus))
	for k := range corpus {
		names = append(names, k)
	}
	sort.Strings(names)
	// A0: every corpus file as it is, full position sweep when small
	for i, nm := range names {
		r := root.Fork(uint64(5000 + i))
		cs := &c01Case{Lane: "A-content", Label: "corpus:" + nm, Files: map[string]string{"c.lua": corpus[nm]}}
		cs.Steps = c01Sweep(r, "c.lua", corpus[nm], 400, c01PosMethods)
		cases = append(cases, cs)
		// the same file in config-file mode (types 26-29 and other gated analyses only run there)
		cj := &c01Case{Lane: "A-content", Label: "corpus+jsonmode:" + nm, Files: map[string]string{"c.lua": corpus[nm], "luahelper.json": "{}"}}
		cj.Steps = c01Sweep(r, "c.lua", corpus[nm], 60, c01PosMethods)
		cases = append(cases, cj)
		co := &c01Case{Lane: "A-content", Label: "corpus+jsonmode-all-open:" + nm, Files: map[string]string{"c.lua": corpus[nm], "luahelper.json": c01JSONAllOpen}}
		co.Steps = c01Sweep(r, "c.lua", corpus[nm], 20, c01PosMethods)
		cases = append(cases, co)
	}
	// A1: the file ends inside a token - every combination of a statement prefix, a token opener and a tail of escapes and
	// line breaks; 24 tiny files per server
	{
		prefixes := []string{"", "local s = ", "f(", "t = { k = "}
		openers := []string{"\"abc", "'abc", "[[abc", "[==[abc", "--[[abc", "--[==[abc", "--abc", "0x", "1e", "3..", "a.", "a:", "::", "goto", "\"\\x4", "\"\\u{4", "\"\\12", "\"\\z", "function", "#!"}
		tails := []string{"", "\\", "\n", "\r", "\r\n", "\\\n", "\\\r", "\\\r\n", "\\\n\r", " "}
		var all []string
		for _, p := range prefixes {
			for _, o := range openers {
				for _, t := range tails {
					all = append(all, p+o+t)
				}
			}
		}
		for b := 0; b*24 < len(all); b++ {
			files := map[string]string{}
			end := (b + 1) * 24
			if end > len(all) {
				end = len(all)
			}
			for k, txt := range all[b*24 : end] {
				files[fmt.Sprintf("e%02d.lua", k)] = txt
			}
			r := root.Fork(uint64(9000 + b))
			cs := &c01Case{Lane: "A-content", Label: fmt.Sprintf("end-of-file-inside-a-token:batch%d", b), Files: files}
			cs.Steps = c01Sweep(r, "e00.lua", strings.ToValidUTF8(files["e00.lua"], "\uFFFD"), 8, c01PosMethods)
			cases = append(cases, cs)
		}
	}
	// A2: special names and literals in the prefix position of member expressions - every combination of a prefix (the
	// global-table / self / environment names, literals that spell them, other primaries), an access path and a statement
	// context; 40 one-statement files per server, requests swept over the first
	{
		prefixes := []string{`("_G")`, `("self")`, `("_ENV")`, `(_G)`, `_G`, `_ENV`, `self`, `("x")`, `("")`, `("a.b")`, `(1)`, `({})`, `(nil)`, `("_G").a`, `_G._G`, `_G["_G"]`, `(function() end)`, `(...)`}
		paths := []string{".x", `["x"]`, "[1]", ".x.y", `["x"].y`, ":m()", ".x()", "[k]", `["a.b"]`, ""}
		ctxs := []string{"%s = 1", "local v = %s", "%s = %s", "print(%s)", "%s, b = 1, 2", "for i = 1, 2 do %s = i end", "function f() %s = 1 return %s end", "local t = { k = %s }", "if %s then %s = nil end"}
		var all []string
		for _, p := range prefixes {
			for _, pa := range paths {
				for _, cx := range ctxs {
					all = append(all, strings.ReplaceAll(cx, "%s", p+pa)+"\n")
				}
			}
		}
		for b := 0; b*40 < len(all); b++ {
			files := map[string]string{}
			end := (b + 1) * 40
			if end > len(all) {
				end = len(all)
			}
			for k, txt := range all[b*40 : end] {
				files[fmt.Sprintf("p%02d.lua", k)] = txt
			}
			r := root.Fork(uint64(9500 + b))
			cs := &c01Case{Lane: "A-content", Label: fmt.Sprintf("special-prefix-member-expressions:batch%d", b), Files: files}
			cs.Steps = c01Sweep(r, "p00.lua", files["p00.lua"], 8, c01PosMethods)
			cases = append(cases, cs)
		}
	}
	for i := 0; i < n; i++ {
		r := root.Fork(uint64(i))
		var base string
		label := ""
		switch r.Intn(10) {
		case 0, 1, 2:
			nm := names[r.Intn(len(names))]
			base = corpus[nm]
			label = "corpus:" + nm
		case 3:
			base, label = c01DeepNesting(r)
		case 4:
			if r.Bool() {
				// identifiers of 100-300 bytes (fixed-size buffers of matchers and formatters), in every naming position
				nm := func(p string) string { return p + strings.Repeat(r.Pick([]string{"a", "Ab", "x_", "long"}), r.Range(40, 120)) }
				l1, g1, m1, p1 := nm("handleLocal"), nm("HandleGlobal"), nm("handleMember"), nm("handleParam")
				base = fmt.Sprintf("local %s = 1\nfunction %s(%s)\n  return %s + %s\nend\nlocal T = { %s = 2 }\nfunction T.%s(a) return a end\nprint(%s, %s(1), T.%s, T.%s(3))\n",
					l1, g1, p1, p1, l1, m1, m1+"Fn", l1, g1, m1, m1+"Fn")
				label = "long-identifiers"
				break
			}
			if r.Bool() {
				// name lists, value lists and parameter lists of 250-400 entries (beyond what the language itself allows
				// per function, but a server reads whatever is in the file): positions counted in small integer types
				n := r.Range(250, 400)
				var ns, vs []string
				for k := 1; k <= n; k++ {
					ns = append(ns, fmt.Sprintf("a%d", k))
					vs = append(vs, fmt.Sprint(k))
				}
				nl, vl := strings.Join(ns, ", "), strings.Join(vs, ", ")
				base = fmt.Sprintf("---@return number\nlocal function f()\n  return 1\nend\nlocal function g(%s)\n  return %s\nend\nlocal %s = f()\nprint(a1, a255, a256, a%d)\nlocal t = { g(%s) }\n%s = g(%s)\nfor %s in pairs(t) do print(a256) end\nprint(a257, a%d)\n",
					nl, nl, nl, n, vl, strings.ReplaceAll(nl, "a", "G"), vl, strings.Join(ns[:r.Range(3, n)], ", "), n)
				label = "long-name-lists"
				break
			}
			base = strings.Repeat("local a = 1 ", 4000) // one long line (~48 KB)
			label = "long-line"
		case 5:
			base = ""
			label = "empty"
		default:
			cfg := DefaultGenCfg()
			cfg.MaxDepth = r.Range(1, 4)
			g := NewGen(r, cfg)
			g.Budget = 600
			base = Render(r, g.Chunk(), Trivia{LineEnd: r.Pick([]string{"\n", "\r\n", "\r"}), Rich: r.Bool(), Tight: r.Bool()})
			label = "generated"
		}
		txt := base
		nm := r.Range(0, 3)
		for k := 0; k < nm; k++ {
			var kind string
			txt, kind = genBytesMutate(r, txt)
			label += "+" + kind
		}
		files := map[string]string{"m.lua": txt}
		// a second clean file so that cross-file passes run
		files["other.lua"] = "GOther = { f = function(a, b) return a end }\nreturn GOther\n"
		// a third of the cases run in config-file mode, half of those with every optional check switched on
		// (OpenErrorTypes): several analyses only run there
		switch r.Intn(6) {
		case 0:
			files["luahelper.json"] = "{}"
			label += "+jsonmode"
		case 1:
			files["luahelper.json"] = c01JSONAllOpen
			label += "+jsonmode-all-open"
		}
		cs := &c01Case{Lane: "A-content", Label: label, Files: files}
		// on the wire text must be valid UTF-8; the file on disk keeps the raw bytes
		wire := strings.ToValidUTF8(txt, "�")
		maxPos := 40
		if len(wire) < 300 {
			maxPos = 400
		}
		if len(wire) > 20000 {
			maxPos = 12
		}
		cs.Steps = c01Sweep(r, "m.lua", wire, maxPos, c01PosMethods)
		if strings.HasPrefix(label, "long-name-lists") {
			// requests on the names around the 255th / 256th position of the lists
			nreq := 0
			for _, tk := range RLex([]byte(wire)).Toks {
				if tk.K == TName && (tk.Val == "a255" || tk.Val == "a256" || tk.Val == "a257" || tk.Val == "G256") && nreq < 60 {
					p := posAt([]byte(wire), tk.Off)
					for _, m := range []string{"textDocument/hover", "textDocument/definition", "textDocument/references"} {
						cs.Steps = append(cs.Steps, c01PosRequest(m, "file://$ROOT/m.lua", p, r))
						nreq++
					}
				}
			}
		}
		// workspace/symbol with queries that match names of the file: prefixes of a few of its identifiers
		for _, tk := range RLex([]byte(wire)).Toks {
			if tk.K == TName && len(tk.Val) >= 3 && r.Chance(1, 12) {
				cs.Steps = append(cs.Steps, c01Step{Method: "workspace/symbol", Params: map[string]interface{}{"query": tk.Val[:r.Range(2, min(len(tk.Val), 8))]}, Req: true})
			}
		}
		cases = append(cases, cs)
	}
	return cases
}

// ---------------------------------------------------------------------------------------------
// lane B: annotations

// every optional (off by default) check switched on
const c01JSONAllOpen = `{"ShowWarnFlag":1,"OpenErrorTypes":[1,2,3,4,5,6,7,8,9,10,11,12,13,14,15,16,17,18,19,20,21,22,23,24,25,26,27,28,29,30]}`

var c01AnnoKeywords = []string{"fun", "table", "type", "param", "field", "class", "return", "overload", "alias", "generic", "public", "protected", "private", "vararg", "const", "enum"}

func c01AnnoFile(r *Rng) (string, string) {
	var sb strings.Builder
	label := "anno"
	ncls := r.Range(1, 6)
	cls := func(i int) string { return fmt.Sprintf("Cls%d", i) }
	types := []string{"number", "string", "boolean", "any", "table", "nil", "fun()", "fun(a:number):string", "table<string, number>", "number[]", "Cls0", "Cls1", "Cls0[]",
		"table<string, Cls1>", "AliasA", "AliasB", "AliasA[]", "table<number, AliasB>", "(number|string)[]", "fun(x:Cls0, ...):Cls1, Cls0", "Missing", "string | number | nil", "\"lit\" | 'x'"}
	if r.Chance(1, 3) {
		// string constants as types: every short content, quote characters as the content, unclosed and mixed quotes; also as the
		// candidate lines of an alias
		consts := []string{`'"'`, `"'"`, `''`, `""`, `'`, `"`, `'a`, `"a`, `a'`, `'''`, `"""`, `'"`, `"'`, `'\\'`, `"\\"`, `'|'`, `'a b'`, `"a'b"`, `'a"b'`, `' '`, `'a'`, `"ab"`, `'@'`, `'-'`, `'--'`, `'é'`}
		for k := r.Range(3, 8); k > 0; k-- {
			t := r.Pick(consts)
			for j := r.Intn(3); j > 0; j-- {
				t += r.Pick([]string{" | ", "|", " |"}) + r.Pick(consts)
			}
			types = append(types, t)
		}
		sb.WriteString("---@alias QuoteAlias " + r.Pick(consts) + " | " + r.Pick(consts) + "\n")
		sb.WriteString("---@alias CandAlias\n")
		for k := r.Range(1, 5); k > 0; k-- {
			sb.WriteString("---| " + r.Pick(consts) + r.Pick([]string{"", " # note", " -- note"}) + "\n")
		}
		sb.WriteString("---@param q QuoteAlias\n---@param c CandAlias | " + r.Pick(consts) + "\n---@return " + r.Pick(consts) + "\nfunction quoted(q, c)\n  return q\nend\nprint(quoted(1, 2))\n")
		label += "+string-constants"
	}
	switch r.Intn(8) {
	case 0:
		sb.WriteString("---@alias AliasA AliasB\n---@alias AliasB AliasA\n")
		label += "+mutual-alias"
	case 1:
		sb.WriteString("---@alias AliasA AliasA\n---@alias AliasB AliasA[]\n")
		label += "+self-alias"
	case 2:
		sb.WriteString("---@alias AliasA table<string, AliasB>\n---@alias AliasB AliasA[]\n")
		label += "+alias-through-containers"
	case 3:
		sb.WriteString("---@alias AliasA Cls0\n---@alias AliasB AliasA | Cls1\n")
	default:
		sb.WriteString("---@alias AliasA number\n---@alias AliasB string[]\n")
	}
	for i := 0; i < ncls; i++ {
		sb.WriteString("---@class " + cls(i))
		np := r.Range(0, 3)
		for k := 0; k < np; k++ {
			if k == 0 {
				sb.WriteString(" : ")
			} else {
				sb.WriteString(", ")
			}
			sb.WriteString(cls(r.Intn(ncls))) // cycles and self-inheritance allowed
		}
		sb.WriteString("\n")
		nf := r.Range(0, 4)
		for k := 0; k < nf; k++ {
			sb.WriteString(fmt.Sprintf("---@field %sf%d_%d %s\n", r.Pick([]string{"", "public ", "private ", "protected "}), i, k, r.Pick(types)))
		}
		if r.Bool() {
			sb.WriteString(fmt.Sprintf("local %s = {}\n", cls(i)))
			if r.Bool() {
				sb.WriteString(fmt.Sprintf("function %s:method%d(a, b)\n  self.member%d = a\n  return self\nend\n", cls(i), i, i))
			}
		} else {
			sb.WriteString(fmt.Sprintf("%s = {}\n", cls(i)))
		}
	}
	nv := r.Range(1, 6)
	for i := 0; i < nv; i++ {
		t := r.Pick(types)
		// keyword modifiers before the type (const / enum in any order and number, occasionally any other annotation keyword)
		for k := []int{0, 0, 0, 1, 1, 2, 2, 3}[r.Intn(8)]; k > 0; k-- {
			if r.Chance(7, 10) {
				t = r.Pick([]string{"const", "enum"}) + " " + t
			} else {
				t = r.Pick(c01AnnoKeywords) + " " + t
			}
		}
		if r.Chance(1, 5) {
			t += ", " + r.Pick([]string{"const ", "enum ", "enum const ", "const enum ", ""}) + r.Pick(types)
		}
		sb.WriteString(fmt.Sprintf("---@type %s\nlocal v%d = %s\n", t, i, r.Pick([]string{"{}", "nil", "Cls0", "f()", "v0", "{ a = 1 }"})))
		sb.WriteString(fmt.Sprintf("print(v%d.f0_0, v%d.x.y, v%d[1].f0_0, v%d[\"k\"].f1_0, v%d:method0())\n", i, i, i, i, i))
		sb.WriteString(fmt.Sprintf("v%d.\n", i)) // the typing flow completion is made for
	}
	if r.Chance(1, 3) {
		sb.WriteString("---@param a Cls0\n---@param b AliasA\n---@return Cls1, AliasB\n---@overload fun(a:number):Cls0\n---@generic T : Cls0\n---@vararg string\nfunction GF(a, b, ...)\n  return a.f0_0, b\nend\nlocal r1, r2 = GF(v0, v1)\nprint(r1.f1_0, r2[1])\n")
		// calls with fewer and with more arguments than named parameters, a vararg function with annotated parameters
		sb.WriteString("print(GF(v0), GF(v0, v1, 1, \"x\"), GF())\n---@param fmt string\nlocal function logf(fmt, ...)\n  return fmt\nend\nlogf(\"x\")\nlogf(\"x %d\", 1, v0)\nlogf(1, 2)\n")
		label += "+func-annos"
	}
	if r.Chance(1, 3) {
		vals := []string{"1", "\"s\"", "(x)", "(1)", "x", "a.b", "f()", "{}", "-1", "1 + 2", "(\"s\")", "((x))", "nil", "function() end", "not x", "x .. y"}
		if r.Bool() {
			sb.WriteString("---@enum start\nlocal E = {\n")
			for k := 0; k < r.Range(1, 5); k++ {
				sb.WriteString(fmt.Sprintf("  K%d = %s,\n", k, r.Pick(vals)))
			}
			sb.WriteString("}\n---@enum end\n")
		} else {
			sb.WriteString("---@enum start\n")
			for k := 0; k < r.Range(2, 5); k++ {
				sb.WriteString(fmt.Sprintf("EK%d = %s\n", k, r.Pick(vals)))
			}
			sb.WriteString("---@enum end\n")
		}
		for k := 0; k < r.Range(1, 3); k++ {
			sb.WriteString(fmt.Sprintf("EV%d = %s\n", k, r.Pick(vals)))
		}
		label += "+enum"
	}
	if r.Chance(1, 3) {
		// token soup: annotation lines made of random words of the annotation vocabulary
		vocab := append(append([]string{}, c01AnnoKeywords...), ",", ":", "...", "(", ")", "[", "]", "|", "<", ">", "@", "?", "Cls0", "AliasA", "number", "x", "\"lit\"", "start", "end")
		for k := 0; k < r.Range(2, 8); k++ {
			sb.WriteString("---@" + r.Pick(c01AnnoKeywords))
			for j := r.Range(0, 7); j > 0; j-- {
				sb.WriteString(" " + r.Pick(vocab))
			}
			sb.WriteString(fmt.Sprintf("\nlocal soup%d = {}\nprint(soup%d.f0_0, soup%d)\n", k, k, k))
		}
		label += "+token-soup"
	}
	if r.Chance(1, 4) {
		// corrupted annotation lines
		bad := []string{"---@", "---@type", "---@type (", "---@type table<", "---@type fun(", "---@class", "---@class A :", "---@class A : ,", "---@field", "---@field x",
			"---@param", "---@return", "---@alias", "---@alias X", "---@generic", "---@overload", "---@overload fun(", "---@type number[", "---@type |", "---@type a|",
			"---@type table<string,>", "---@type fun():", "---@vararg", "---@enum", "---@type " + strings.Repeat("(", 300), "---@type " + strings.Repeat("number|", 3000) + "number",
			"---@type " + strings.Repeat("table<string,", 200) + "number" + strings.Repeat(">", 200), "---@class " + strings.Repeat("A", 5000), "---@type \xff\xfe", "---@@@", "---@type @"}
		for k := 0; k < r.Range(1, 4); k++ {
			sb.WriteString(r.Pick(bad) + "\nlocal bad" + fmt.Sprint(k) + " = 1\n")
		}
		label += "+corrupt"
	}
	return sb.String(), label
}

func c01LaneB(c *Ctx, root *Rng, n int) []*c01Case {
	var cases []*c01Case
	for i := 0; i < n; i++ {
		r := root.Fork(uint64(i))
		txt, label := c01AnnoFile(r)
		files := map[string]string{"anno.lua": txt}
		if r.Bool() {
			t2, _ := c01AnnoFile(r.Fork(7))
			files["anno2.lua"] = t2 // duplicate classes across files
		}
		cs := &c01Case{Lane: "B-annotations", Label: label, Files: files}
		if r.Chance(1, 3) {
			// config-file mode enables the enum check (type 29) and other gated analyses
			files["luahelper.json"] = "{}"
			cs.Label += "+jsonmode"
			if r.Bool() {
				files["luahelper.json"] = c01JSONAllOpen
				cs.Label += "-all-open"
			}
		}
		wire := strings.ToValidUTF8(txt, "�")
		cs.Steps = c01Sweep(r, "anno.lua", wire, 250, []string{"textDocument/definition", "textDocument/hover", "textDocument/completion", "textDocument/signatureHelp", "textDocument/references"})
		cases = append(cases, cs)
	}
	return cases
}

// ---------------------------------------------------------------------------------------------
// lane C: configuration

func c01RandomValue(r *Rng, depth int) interface{} {
	switch r.Intn(12) {
	case 0:
		return nil
	case 1:
		return r.Bool()
	case 2:
		return r.Intn(100) - 50
	case 3:
		return 1e300
	case 4:
		return ""
	case 5:
		return r.Pick([]string{"(", "[", "*", "a(b", "\\", "a\\", ".*", "src/", "./", "..", "m.lua", strings.Repeat("x", 5000), "\x00", "?", "+", "{1,", "(?P<", "[a-"})
	case 6:
		if depth > 0 {
			n := r.Range(0, 3)
			l := []interface{}{}
			for i := 0; i < n; i++ {
				l = append(l, c01RandomValue(r, depth-1))
			}
			return l
		}
		return []interface{}{}
	case 7:
		if depth > 0 {
			m := map[string]interface{}{}
			for i := 0; i < r.Range(0, 3); i++ {
				m[r.Pick([]string{"a", "File", "Types", "Name", "*.txt", ""})] = c01RandomValue(r, depth-1)
			}
			return m
		}
		return map[string]interface{}{}
	case 8:
		return []interface{}{"m.lua", "(", "sub/", ".*"}
	case 9:
		return -1
	case 10:
		return 3000000000
	}
	return "x"
}

var c01JSONKeys = []string{"BaseDir", "ShowWarnFlag", "ReferMatchPathFlag", "IgnoreFileNameVarFlag", "ProjectFiles", "IgnoreModules", "IgnoreWildcardModules",
	"IgnoreFileVars", "IgnoreReadFiles", "IgnoreErrorTypes", "IgnoreFileOrFloder", "IgnoreFileErr", "IgnoreFileErrTypes", "IgnoreLocalNoUseVars", "ProtocolVars",
	"ProtocolPreIngoreFlag", "ReferFrameFiles", "PathSeparator", "AnntotateSets", "OtherDir", "OpenErrorTypes"}

func c01LaneC(c *Ctx, root *Rng, n int) []*c01Case {
	var cases []*c01Case
	baseFiles := func() map[string]string {
		return map[string]string{
			"m.lua":     "local a = 1\nlocal t = require(\"sub.mod\")\nprint(undefinedName, t)\nfunction GF(x, x) return x == x end\n",
			"sub/mod.lua": "local M = {}\nfunction M.f() end\nreturn M\n",
			"sub/init.lua": "return {}\n",
		}
	}
	sweep := func(r *Rng) []c01Step {
		return c01Sweep(r, "m.lua", baseFiles()["m.lua"], 30, []string{"textDocument/definition", "textDocument/hover", "textDocument/completion"})
	}
	for i := 0; i < n; i++ {
		r := root.Fork(uint64(i))
		files := baseFiles()
		cs := &c01Case{Lane: "C-configuration", Files: files}
		nSweep := 30
		switch r.Intn(7) {
		case 6: // type inference rules of the configuration file (AnntotateSets): the class named by the n-th argument of a function
			var sets []interface{}
			var sb strings.Builder
			sb.WriteString("---@class Lobby_UIBP\n---@field title string\n---@class Shop_UIBP : Lobby_UIBP\n---@field price number\n\n")
			for k := 0; k < r.Range(1, 3); k++ {
				fn := fmt.Sprintf("GetUIObject%d", k)
				idx := []int{1, 2, 2, 3, 0, -1, 100}[r.Intn(7)]
				sets = append(sets, map[string]interface{}{"FuncName": fn, "ParamIndex": idx, "SplitFlag": r.Intn(3), "PrefixStr": r.Pick([]string{"", "", "Lobby", "x"}), "SuffixStr": r.Pick([]string{"", "", "_UIBP", "y"})})
				fmt.Fprintf(&sb, "function %s(bp, name, extra)\nend\n", fn)
				// calls with every number of arguments from none to four, class names and other values in every position
				args := []string{"\"Lobby_UIBP\"", "\"Shop_UIBP\"", "bp", "1", "nil", "\"\"", "\"Lobby\"", "\"a.b.Lobby_UIBP\"", "{}", "...", "f()"}
				for j := 0; j < r.Range(4, 9); j++ {
					var as []string
					for q := r.Intn(5); q > 0; q-- {
						as = append(as, r.Pick(args))
					}
					fmt.Fprintf(&sb, "local v%d_%d = %s(%s)\nprint(v%d_%d, v%d_%d.title)\n", k, j, fn, strings.Join(as, ", "), k, j, k, j)
				}
			}
			files["m.lua"] = sb.String()
			b, _ := json.Marshal(map[string]interface{}{"BaseDir": "./", "AnntotateSets": sets})
			files["luahelper.json"] = string(b)
			cs.Label = "annotate-sets"
			nSweep = 150
		case 5: // entry-file project mode (luahelper.json ProjectFiles) over require graphs with cycles, self-requires and diamonds
			edges := map[string][]string{"m": {"sub.mod"}, "sub.mod": nil, "sub.other": nil, "leaf": nil}
			names := []string{"m", "sub.mod", "sub.other", "leaf"}
			for k := 0; k < r.Range(1, 5); k++ {
				from, to := r.Pick(names), r.Pick(names) // from == to: a module that requires itself
				edges[from] = append(edges[from], to)
			}
			for _, nm := range names {
				var sb strings.Builder
				for k, to := range edges[nm] {
					call := r.Pick([]string{"require(\"%s\")", "require \"%s\"", "require('%s')"})
					if r.Chance(1, 3) {
						fmt.Fprintf(&sb, "local function lazy%d()\n  return "+call+"\nend\nprint(lazy%d)\n", k, to, k)
					} else {
						fmt.Fprintf(&sb, "local dep%d = "+call+"\nprint(dep%d)\n", k, to, k)
					}
				}
				sb.WriteString("local M = { name = \"" + nm + "\" }\nfunction M.f(a) return a end\nreturn M\n")
				files[strings.ReplaceAll(nm, ".", "/")+".lua"] = sb.String()
			}
			entry := r.Pick([]string{"m.lua", "m.lua", "sub/mod.lua", "leaf.lua"})
			m := map[string]interface{}{"BaseDir": "./", "ProjectFiles": []interface{}{entry}}
			if r.Bool() {
				m["ProjectFiles"] = []interface{}{entry, "sub/other.lua"}
			}
			b, _ := json.Marshal(m)
			files["luahelper.json"] = string(b)
			cs.Label = "entry-file-project"
		case 0: // init option variants
			init := map[string]interface{}{"client": r.Pick([]string{"vsc", "", "other"}), "AllEnable": r.Bool(), "LocalRun": r.Bool()}
			for _, k := range checkFlagNames[1:] {
				if r.Bool() {
					init[k] = r.Bool()
				}
			}
			if r.Bool() {
				init["IgnoreFileOrDir"] = []interface{}{r.Pick([]string{"sub/", "m.lua", "(", "[", "", "*", ".*", "\\"})}
			}
			if r.Bool() {
				init["IgnoreFileOrDirError"] = []interface{}{r.Pick([]string{"sub/", "m.lua", "(", "[", "", "*", ".*", "a(b", "\\"})}
			}
			if r.Bool() {
				init["RequirePathSeparator"] = r.Pick([]string{".", "/", "", "x", "..", "\\"})
			}
			if r.Bool() {
				init["FileAssociationsConfig"] = c01RandomValue(r, 2)
			}
			if r.Bool() {
				init["PluginPath"] = r.Pick([]string{"", "/nonexistent", "$ROOT", "$ROOT/sub"})
			}
			cs.Init = init
			cs.Label = "init-options"
		case 1: // wrong-typed initialization options / params
			p := map[string]interface{}{"processId": nil, "rootPath": "$ROOT", "rootUri": "file://$ROOT", "capabilities": map[string]interface{}{},
				"workspaceFolders": []interface{}{}}
			switch r.Intn(6) {
			case 0:
				p["initializationOptions"] = c01RandomValue(r, 2)
			case 1:
				o := allOnInit()
				o[r.Pick(append(checkFlagNames, "IgnoreFileOrDir", "IgnoreFileOrDirError", "RequirePathSeparator", "LocalRun", "client"))] = c01RandomValue(r, 2)
				p["initializationOptions"] = o
			case 2:
				delete(p, "initializationOptions")
			case 3:
				p["workspaceFolders"] = []interface{}{map[string]interface{}{"uri": "file://$ROOT/sub", "name": "sub"}, map[string]interface{}{"uri": "file:///nonexistent", "name": "x"}}
				p["initializationOptions"] = allOnInit()
			case 4:
				p["rootUri"] = r.Pick([]string{"", "untitled:x", "file://$ROOT/nonexistent", "file://$ROOT/sub"})
				p["rootPath"] = r.Pick([]string{"", "$ROOT/nonexistent", "$ROOT", "$ROOT/sub"})
				p["initializationOptions"] = allOnInit()
			default:
				p["workspaceFolders"] = nil
				p["initializationOptions"] = allOnInit()
			}
			b, _ := json.Marshal(p)
			cs.RawInit = b
			cs.Label = "raw-initialize"
		case 2: // luahelper.json variants
			m := map[string]interface{}{}
			for k := 0; k < r.Range(0, 5); k++ {
				m[r.Pick(c01JSONKeys)] = c01RandomValue(r, 2)
			}
			b, _ := json.Marshal(m)
			js := string(b)
			switch r.Intn(6) {
			case 0:
				js = js[:len(js)/2] // invalid JSON
			case 1:
				js = ""
			case 2:
				js = "[]"
			}
			files["luahelper.json"] = js
			cs.Label = "luahelper.json"
		case 3: // well-typed luahelper.json with hostile values
			m := map[string]interface{}{
				"BaseDir":            r.Pick([]string{"./", "", "nonexistent/", "sub", "./sub/"}),
				"ProjectFiles":       []interface{}{r.Pick([]string{"m.lua", "missing.lua", "./m.lua", "sub/mod.lua", ""})},
				"IgnoreErrorTypes":   []interface{}{r.Intn(40) - 5},
				"IgnoreFileOrFloder": []interface{}{r.Pick([]string{"sub/", "(", "[", "", "m.lua", ".*"})},
				"IgnoreFileErr":      []interface{}{r.Pick([]string{"m.lua", "(", "[a-", "*", ""})},
				"IgnoreFileErrTypes": []interface{}{map[string]interface{}{"File": r.Pick([]string{"m.lua", "(", "*", ""}), "Types": []interface{}{r.Intn(40)}}},
				"IgnoreFileVars":     []interface{}{map[string]interface{}{"File": r.Pick([]string{"m.lua", "("}), "Vars": []interface{}{"undefinedName", ""}}},
				"IgnoreModules":      []interface{}{r.Pick([]string{"undefinedName", "", "("})},
				"PathSeparator":      r.Pick([]string{".", "/", "", "xx"}),
				"OtherDir":           r.Pick([]string{"", "sub", "nonexistent", "./sub"}),
				"ShowWarnFlag":       r.Intn(3) - 1,
				"OpenErrorTypes":     []interface{}{r.Intn(40)},
				"ReferFrameFiles":    []interface{}{map[string]interface{}{"Name": r.Pick([]string{"import", "(", ""}), "type": r.Intn(3), "SuffixFlag": r.Intn(3)}},
			}
			b, _ := json.Marshal(m)
			files["luahelper.json"] = string(b)
			cs.Label = "luahelper.json-typed"
		default: // later configuration changes
			cs.Label = "didChangeConfiguration"
		}
		steps := sweep(r)
		if nSweep != 30 {
			steps = c01Sweep(r, "m.lua", files["m.lua"], nSweep, []string{"textDocument/definition", "textDocument/hover", "textDocument/completion"})
		}
		// later didChangeConfiguration notifications (the first is ignored by design)
		for k := 0; k < r.Range(0, 3); k++ {
			var settings interface{}
			switch r.Intn(4) {
			case 0:
				settings = c01RandomValue(r, 3)
			case 1:
				w := map[string]interface{}{}
				for _, kk := range checkFlagNames {
					w[kk] = r.Bool()
				}
				settings = map[string]interface{}{"luahelper": map[string]interface{}{"Warn": w, "base": map[string]interface{}{
					"IgnoreFileOrDir": []interface{}{r.Pick([]string{"sub/", "(", "", "m.lua"})}, "IgnoreFileOrDirError": []interface{}{r.Pick([]string{"m.lua", "[", "", "a(b"})},
					"RequirePathSeparator": r.Pick([]string{".", "/", ""}), "ReferenceMaxNum": r.Intn(10) - 2, "PreviewFieldsNum": r.Intn(10) - 2}},
					"files": c01RandomValue(r, 2)}
			case 2:
				settings = map[string]interface{}{"luahelper": map[string]interface{}{"Warn": c01RandomValue(r, 2), "base": c01RandomValue(r, 2)}}
			default:
				settings = map[string]interface{}{}
			}
			steps = append(steps, c01Step{Method: "workspace/didChangeConfiguration", Params: map[string]interface{}{"settings": settings}})
			steps = append(steps, sweep(r)[1:]...)
		}
		cs.Steps = steps
		cases = append(cases, cs)
	}
	return cases
}

// ---------------------------------------------------------------------------------------------
// lane D: message sequences (conformant random walks)

func c01LaneD(c *Ctx, root *Rng, n int) []*c01Case {
	var cases []*c01Case
	for i := 0; i < n; i++ {
		r := root.Fork(uint64(i))
		sw := GenScopeWS(r, ScopeCfg{NFiles: r.Range(2, 3), Depth: 2, Stats: 3})
		files := sw.FileMap()
		files["src/req.lua"] = "local m = require(\"src.mod0\")\nlocal n = require(\"src.gone\")\nprint(m, n)\n"
		cs := &c01Case{Lane: "D-sequences", Label: "walk", Files: files}
		rels := make([]string, 0, len(files))
		for k := range files {
			rels = append(rels, k)
		}
		sort.Strings(rels)
		text := map[string]*RText{}   // client buffer of open documents
		disk := map[string]string{}   // file system content
		open := map[string]bool{}
		ver := 1
		for k, v := range files {
			disk[k] = v
		}
		uri := func(rel string) string { return "file://$ROOT/" + rel }
		nsteps := r.Range(50, 250)
		variants := func(rel string) string {
			// content variants: original, truncated (typing), mutated, empty
			base := files[rel]
			switch r.Intn(6) {
			case 0:
				return base
			case 1:
				return strings.ToValidUTF8(base[:r.Intn(len(base)+1)], "")
			case 2:
				m, _ := genBytesMutate(r, base)
				return strings.ToValidUTF8(m, "�")
			case 3:
				return ""
			case 4:
				return base + "\nlocal extra = GAlpha.\n"
			}
			return base + "\nprint(GAlpha:"
		}
		for s := 0; s < nsteps; s++ {
			rel := rels[r.Intn(len(rels))]
			k := r.Intn(20)
			switch {
			case k < 2:
				if !open[rel] {
					if _, ok := disk[rel]; !ok {
						continue
					}
					open[rel] = true
					text[rel] = NewRText(disk[rel])
					cs.Steps = append(cs.Steps, c01OpenStep(uri(rel), disk[rel]))
				}
			case k < 6: // change
				if !open[rel] {
					continue
				}
				ver++
				t := text[rel]
				if r.Chance(1, 3) {
					nt := variants(rel)
					t.B = []byte(nt)
					cs.Steps = append(cs.Steps, c01Step{Method: "textDocument/didChange", Params: map[string]interface{}{
						"textDocument": map[string]interface{}{"uri": uri(rel), "version": ver}, "contentChanges": []interface{}{map[string]interface{}{"text": nt}}}})
				} else {
					a := c02PickOffset(r, t)
					b := a
					if r.Bool() {
						b = c02PickOffset(r, t)
						if b < a {
							a, b = b, a
						}
					}
					if a > 0 && a < len(t.B) && t.B[a-1] == '\r' && t.B[a] == '\n' {
						a--
					}
					if b > 0 && b < len(t.B) && t.B[b-1] == '\r' && t.B[b] == '\n' {
						b++
					}
					rg := Range{t.PosAt(a), t.PosAt(b)}
					ins := r.Pick([]string{"", "x", ".", ":", "(", ")", "\n", "end", " local q = ", "\"", "--", "[[", "GAlpha.", "é", "😀", "\t", "function()", "="})
					t.Splice(rg, ins)
					cs.Steps = append(cs.Steps, c01Step{Method: "textDocument/didChange", Params: map[string]interface{}{
						"textDocument": map[string]interface{}{"uri": uri(rel), "version": ver}, "contentChanges": []interface{}{map[string]interface{}{"range": rg, "text": ins}}}})
				}
			case k == 6: // save (file written first)
				if !open[rel] {
					continue
				}
				txt := text[rel].String()
				disk[rel] = txt
				cs.Steps = append(cs.Steps, c01Step{Method: "$write", Params: map[string]interface{}{"rel": rel, "text": txt}})
				cs.Steps = append(cs.Steps, c01Step{Method: "textDocument/didSave", Params: map[string]interface{}{"textDocument": map[string]interface{}{"uri": uri(rel)}, "text": txt}})
			case k == 7: // close
				if open[rel] {
					open[rel] = false
					cs.Steps = append(cs.Steps, c01Step{Method: "textDocument/didClose", Params: map[string]interface{}{"textDocument": map[string]interface{}{"uri": uri(rel)}}})
				}
			case k == 8: // external change / create / delete + watched event
				var evs []interface{}
				for q := 0; q < r.Range(1, 3); q++ {
					rl := rels[r.Intn(len(rels))]
					if r.Chance(1, 5) {
						rl = fmt.Sprintf("src/new%d.lua", r.Intn(3))
					}
					if _, ok := disk[rl]; ok && r.Chance(1, 3) {
						delete(disk, rl)
						cs.Steps = append(cs.Steps, c01Step{Method: "$write", Params: map[string]interface{}{"rel": rl, "delete": true}})
						evs = append(evs, map[string]interface{}{"uri": uri(rl), "type": 3})
					} else {
						_, existed := disk[rl]
						nt := "GNew = 1\nreturn GNew\n"
						if _, ok := files[rl]; ok {
							nt = variants(rl)
						}
						disk[rl] = nt
						cs.Steps = append(cs.Steps, c01Step{Method: "$write", Params: map[string]interface{}{"rel": rl, "text": nt}})
						typ := 2
						if !existed {
							typ = 1
						}
						evs = append(evs, map[string]interface{}{"uri": uri(rl), "type": typ})
					}
				}
				cs.Steps = append(cs.Steps, c01Step{Method: "workspace/didChangeWatchedFiles", Params: map[string]interface{}{"changes": evs}})
			case k == 9:
				w := map[string]interface{}{}
				for _, kk := range checkFlagNames {
					w[kk] = r.Chance(3, 4)
				}
				cs.Steps = append(cs.Steps, c01Step{Method: "workspace/didChangeConfiguration", Params: map[string]interface{}{"settings": map[string]interface{}{
					"luahelper": map[string]interface{}{"Warn": w, "base": map[string]interface{}{}}}}})
			case k == 10:
				ev := map[string]interface{}{"added": []interface{}{}, "removed": []interface{}{}}
				// a sub-folder, the root folder itself, its parent, or a folder that does not exist
				fu := r.Pick([]string{"file://$ROOT/src", "file://$ROOT/src", "file://$ROOT", "file://$ROOT/..", "file://$ROOT/nonexistent"})
				f := map[string]interface{}{"uri": fu, "name": "src"}
				if r.Bool() {
					ev["added"] = []interface{}{f}
				} else {
					ev["removed"] = []interface{}{f}
				}
				cs.Steps = append(cs.Steps, c01Step{Method: "workspace/didChangeWorkspaceFolders", Params: map[string]interface{}{"event": ev}})
			default: // queries on open documents at positions of the client's own text
				if !open[rel] {
					continue
				}
				t := text[rel]
				for q := 0; q < r.Range(1, 6); q++ {
					p := t.PosAt(c02PickOffset(r, t))
					cs.Steps = append(cs.Steps, c01PosRequest(c01PosMethods[r.Intn(len(c01PosMethods))], uri(rel), p, r))
				}
				if r.Chance(1, 3) {
					// a completion here, then the client asks for the details of an item: of this answer, of an answer it
					// received earlier and still shows, or of something the server never sent
					p := t.PosAt(c02PickOffset(r, t))
					cs.Steps = append(cs.Steps, c01PosRequest("textDocument/completion", uri(rel), p, r))
					which := r.Pick([]string{"latest-first", "latest-last", "stale-longest-last", "stale-longest-last", "garbage"})
					rp := map[string]interface{}{"which": which}
					if which == "garbage" {
						rp["item"] = map[string]interface{}{"label": r.Pick([]string{"x", "", "GAlpha"}), "kind": r.Intn(30), "data": c01RandomValue(r, 1)}
					}
					cs.Steps = append(cs.Steps, c01Step{Method: "$resolve", Params: rp, Req: true})
				}
				if r.Chance(1, 4) {
					cs.Steps = append(cs.Steps, c01DocRequests(uri(rel))...)
					cs.Steps = append(cs.Steps, c01Step{Method: "workspace/symbol", Params: map[string]interface{}{"query": r.Pick([]string{"", "G", "a", "mod"})}, Req: true})
				}
			}
		}
		cases = append(cases, cs)
	}
	return cases
}

// ---------------------------------------------------------------------------------------------

func runC01(c *Ctx) {
	root := NewRng(c.Seed).Fork(1)
	var cases []*c01Case
	cases = append(cases, c01LaneA(c, root.Fork(1), c.N(260, 9000))...)
	cases = append(cases, c01LaneB(c, root.Fork(2), c.N(200, 7000))...)
	cases = append(cases, c01LaneC(c, root.Fork(3), c.N(220, 7000))...)
	cases = append(cases, c01LaneD(c, root.Fork(4), c.N(120, 4000))...)
	hangCPUBudget = 60 // 4 requests may be in flight and are served in any order: 3 x 20 CPU-s for the others + 20 for this one, rounded down
	parallel(len(cases), 14, func(i int) {
		cs := cases[i]
		c.Eval(1)
		out := c01Run(c, cs, fmt.Sprintf("c01_%d", i))
		c01Judge(c, cs, out, fmt.Sprintf("c01_%d", i))
		if out.Kind == "ok" && len(out.Events) == 0 {
			c.Distinct(cs.Lane + "|" + cs.Label + "|" + fmt.Sprint(len(cs.Steps)) + hashStr(fmt.Sprint(cs.Files)))
		}
		if i%331 == 0 {
			c.Sample(map[string]interface{}{"lane": cs.Lane, "label": cs.Label, "files": truncate(fmt.Sprint(cs.Files), 300), "steps": len(cs.Steps)})
		}
	})
	c.Finish("four lanes, each case on its own server process: A content (corpus = repository testdata + crash corpus + generated programs, then byte/token-level "+
		"mutation, truncation, deep nesting, long lines, hostile bytes) with request sweeps over every addressable position of small files; B annotation graphs "+
		"(cyclic aliases/classes, containers, enums, corrupted lines, config-file mode); C configuration (init options, wrong-typed initialize params, luahelper.json "+
		"variants, later didChangeConfiguration); D conformant random message walks (open/change/save/close/watched events/config/folders interleaved with all "+
		"request kinds). Oracle: process alive, every request answered within the CPU budget, no value swallowed by the parser's recover(). "+
		"distinct_nontrivial = distinct cases that completed with every request answered", 200)
}
