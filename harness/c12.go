package main

// C12 — definition, references, highlight and hover agree with each other.
// Purely relational monitor: for every identifier token p,
//  (a) every location of references(p) has the same definition answer as p,
//  (b) p's own range is among references(position of definition(p)),
//  (c) highlight(p) equals the references of p that lie in p's file,
//  (d) hover(p) is empty or names the identifier, and says `local` iff definition(p) is a local declaration.

import (
	"fmt"
	"os"
	"path/filepath"
	"sort"
	"strings"
	"time"
)

func init() { wsChecks["C12"] = checkC12WS }

func runC12(c *Ctx) {
	nWS := c.N(500, 8000)
	root := NewRng(c.Seed).Fork(12)
	// the repository's own testdata: one workspace per directory that contains lua files
	var tdirs []string
	tdRoot := filepath.Join(repoDir(), "luahelper-lsp", "testdata")
	filepath.Walk(tdRoot, func(p string, info os.FileInfo, err error) error {
		if err == nil && info.IsDir() {
			if m, _ := filepath.Glob(filepath.Join(p, "*.lua")); len(m) > 0 {
				tdirs = append(tdirs, p)
			}
		}
		return nil
	})
	sort.Strings(tdirs)
	total := nWS + len(tdirs)
	parallel(total, 14, func(i int) {
		var sw *ScopeWS
		tag := fmt.Sprintf("c12w%d", i)
		if i < len(tdirs) {
			files := map[string]string{}
			ms, _ := filepath.Glob(filepath.Join(tdirs[i], "*.lua"))
			for _, m := range ms {
				b, err := os.ReadFile(m)
				if err == nil {
					files[filepath.Base(m)] = string(b)
				}
			}
			sw = ScopeWSLoose(files)
			c.Count("testdata_workspaces", 1)
		} else {
			r := root.Fork(uint64(i))
			sw = GenScopeWS(r, ScopeCfg{NFiles: r.Range(1, 3), Depth: r.Range(2, 3), Stats: r.Range(2, 5), JoinPct: -1, GluePct: -1, Zoo: r.Fork(0x7a6f6f).Chance(1, 4)})
			if r.Fork(0x77696465).Chance(1, 40) {
				// a wide workspace: more (short) files than the references worker pool has workers
				sw = GenScopeWS(r, ScopeCfg{NFiles: r.Range(20, 44), Depth: 1, Stats: r.Range(1, 3), JoinPct: -1, GluePct: -1})
				c.Count("wide_workspaces", 1)
			}
		}
		if !sw.Loose && root.Fork(uint64(i)).Fork(0x72657175).Chance(1, 5) {
			if sw2, n := sw.WithRequireOfModuleNamedLikeAGlobal(root.Fork(uint64(i)).Fork(0x72657176)); n != "" {
				sw = sw2
				c.Count("workspaces_that_require_a_module_named_like_a_global_they_use", 1)
			}
		}
		if !sw.Loose && len(sw.Files) >= 2 && root.Fork(uint64(i)).Fork(0x726f6f74).Chance(1, 8) {
			sw.Reroot([]string{"rootA", "rootB"}) // the files are spread over two workspace folders next to each other
			c.Count("multi_root_workspaces", 1)
		}
		c.Eval(1)
		checkC12WS(c, sw, tag)
		if i == len(tdirs) {
			c.Sample(map[string]interface{}{"files": sw.FileMap()})
		}
	})
	// lane: globals reached through _G while a same-named local / parameter / loop variable is in scope
	nG := c.N(150, 3000)
	parallel(nG, 14, func(i int) {
		r := root.Fork(uint64(5000000 + i))
		files := c12GFiles(r)
		sw, ok := ScopeWSFromFiles(files)
		if !ok {
			c.Inconclusive("harness inconsistency: _G workspace not valid for the reference front end")
			return
		}
		c.Eval(1)
		c.Count("underscore_g_workspaces", 1)
		checkC12WS(c, sw, fmt.Sprintf("c12g%d", i))
	})
	// lane: unannotated variables whose value comes, through an assignment, a call or a field access, from an annotated
	// symbol of the other locality (a global fed from an annotated local and vice versa)
	nA := c.N(150, 3000)
	parallel(nA, 14, func(i int) {
		r := root.Fork(uint64(7000000 + i))
		files := c12AnnoFiles(r)
		sw, ok := ScopeWSFromFiles(files)
		if !ok {
			c.Inconclusive("harness inconsistency: annotated workspace not valid for the reference front end")
			return
		}
		c.Eval(1)
		c.Count("annotated_chain_workspaces", 1)
		checkC12WS(c, sw, fmt.Sprintf("c12a%d", i))
	})
	// lane: member chains up to depth 3 whose every key is declared (constructor key or assignment), with the same key name
	// reused at several depths; members are cross-compared too (as on the testdata)
	nM := c.N(150, 3000)
	parallel(nM, 14, func(i int) {
		r := root.Fork(uint64(9000000 + i))
		sw := ScopeWSLoose(c12MemberFiles(r))
		sw.DeclMember = true
		c.Eval(1)
		c.Count("member_chain_workspaces", 1)
		checkC12WS(c, sw, fmt.Sprintf("c12m%d", i))
	})
	c.Set("testdata_dirs", tdirs)
	c.Finish("generated workspaces as in C05, workspaces in which globals are read and written as _G.name while same-named locals, parameters and loop variables shadow them, "+
		"workspaces in which unannotated locals / globals take their value from annotated symbols of the other locality (assignment, call of a function with ---@return, ---@field access), "+
		"plus every directory of luahelper-lsp/testdata; for every identifier token the four answers "+
		"(definition, references, documentHighlight, hover) are cross-compared (clauses a-d); no external oracle. distinct_nontrivial = distinct "+
		"(file text, identifier token) whose definition or references answer was non-empty", 300)
}

// ScopeWSLoose wraps arbitrary files; files the reference front end rejects are kept with an empty token list.
func ScopeWSLoose(files map[string]string) *ScopeWS {
	ws := &ScopeWS{ByRel: map[string]*SFile{}, Loose: true}
	for _, rel := range sortedKeys(files) {
		txt := files[rel]
		pr := RParse([]byte(txt))
		f := &SFile{Rel: rel, Text: txt, Src: []byte(txt), Parse: pr, Bind: RBind(pr)}
		ws.Files = append(ws.Files, f)
		ws.ByRel[rel] = f
	}
	ws.index()
	return ws
}

// nameClass classifies any name token for signatures.
func nameClass(f *SFile, t *Tok) string {
	if o := f.Bind.ByOff[t.Off]; o != nil {
		return lineFeatures(f.Src, t) + "|" + occClass(f, o)
	}
	toks := f.Parse.Lex.Toks
	prev, next := "", ""
	if t.Idx > 0 {
		prev = toks[t.Idx-1].Text
	}
	if t.Idx+1 < len(toks) {
		next = toks[t.Idx+1].Text
	}
	cls := "other-name"
	switch {
	case prev == ".":
		cls = "member-after-dot"
	case prev == ":":
		cls = "method-name"
	case prev == "::" || prev == "goto":
		cls = "label"
	case next == "=" && (prev == "{" || prev == "," || prev == ";"):
		cls = "table-key"
	case prev == "<":
		cls = "attribute"
	}
	return lineFeatures(f.Src, t) + "|" + cls
}

func locKey(l Location) string { return l.URI + "@" + l.Range.String() }

func locsKey(ls []Location) string {
	var s []string
	for _, l := range ls {
		s = append(s, locKey(l))
	}
	sort.Strings(s)
	return strings.Join(s, ";")
}

func checkC12WS(c *Ctx, sw *ScopeWS, tag string) {
	ws, srv, err := startScopeServer(c, sw, tag)
	if err != nil {
		c.Inconclusive("server failed on a workspace (C01's business): " + err.Error())
		return
	}
	defer ws.Remove()
	defer srv.Close()
	defCache := map[string][]Location{}
	dead := false
	def := func(uri string, p Position) []Location {
		k := fmt.Sprintf("%s@%d:%d", uri, p.Line, p.Character)
		if v, ok := defCache[k]; ok {
			return v
		}
		locs, _, err := srv.Definition(uri, p.Line, p.Character)
		if err != nil {
			dead = true
			return nil
		}
		c.Count("definition_queries", 1)
		defCache[k] = locs
		return locs
	}
	fail := func() {
		srv.WaitDeath(5 * time.Second)
		c.Inconclusive(fmt.Sprintf("server stopped answering (C01's business); witness %s", c.CrashWitness(srv, sw.FileMap())))
	}
	for _, f := range sw.Files {
		if !f.Parse.Valid() {
			c.Count("files_skipped_not_valid_for_reference_lexer", 1)
			continue
		}
		uri := ws.URI(f.Rel)
		for _, t := range f.Parse.Lex.Toks {
			if t.K != TName || t.Val == "self" || t.Val == "_G" || t.Val == "_ENV" {
				continue
			}
			isVar := f.Bind.ByOff[t.Off] != nil
			// the name after `_G.` names a global variable (the tool documents _G.x as the global x)
			viaG := !isVar && t.Idx >= 2 && f.Parse.Lex.Toks[t.Idx-1].Text == "." && f.Parse.Lex.Toks[t.Idx-2].Text == "_G" &&
				(t.Idx < 3 || (f.Parse.Lex.Toks[t.Idx-3].Text != "." && f.Parse.Lex.Toks[t.Idx-3].Text != ":"))
			if !isVar && !sw.Loose && !viaG {
				// generated programs use random member names that nothing defines; members are exercised on testdata only
				continue
			}
			p := posAt(f.Src, t.Off)
			own := Location{URI: uri, Range: f.TokRange(t)}
			cls := c12Class(nameClass(f, t), isVar)
			if sw.DeclMember && strings.HasPrefix(cls, "member:") {
				cls = "declared-" + cls
				c.Count("declared_member_positions", 1)
			}
			if viaG && !sw.Loose {
				cls = "var:global-via-_G"
				c.Count("global_via_G_positions", 1)
			}
			if o := f.Bind.ByOff[t.Off]; o != nil && o.Decl == nil && len(sw.GlobalDefs[t.Val]) > 1 && cls != "var:resolver-trigger-class" {
				cls = "var:global-multi-def"
			}
			dp := def(uri, p)
			if dead {
				fail()
				return
			}
			refs, _, err := srv.References(uri, p.Line, p.Character)
			if err != nil {
				fail()
				return
			}
			c.Count("references_queries", 1)
			witness := func(extra map[string]interface{}) interface{} {
				m := map[string]interface{}{"files": sw.FileMap(), "file": f.Rel, "position": p, "name": t.Val,
					"definition": fmtLocs(ws, dp), "references": fmtLocs(ws, refs)}
				for k, v := range extra {
					m[k] = v
				}
				return m
			}
			if len(dp) == 0 && len(refs) == 0 {
				c.Count("dont_care_no_definition_no_references", 1)
			} else {
				c.Distinct(f.Text + fmt.Sprint(t.Off))
			}
			// (a) every reference resolves to the same definition as p
			if len(refs) > 0 {
				want := locsKey(dp)
				for _, rl := range refs {
					rf := sw.ByRel[ws.Rel(rl.URI)]
					if rf == nil {
						continue
					}
					dr := def(rl.URI, rl.Range.Start)
					if dead {
						fail()
						return
					}
					c.Count("clause_a_pairs", 1)
					if locsKey(dr) != want {
						ocls := "unknown"
						if off, ok := (&RText{B: rf.Src}).Offset(rl.Range.Start); ok {
							for _, tt := range rf.Parse.Lex.Toks {
								if tt.Off == off && tt.K == TName {
									ocls = c12Class(nameClass(rf, tt), rf.Bind.ByOff[tt.Off] != nil)
								}
							}
						}
						c.Report(fmt.Sprintf("a:reference-has-other-definition|p:%s|ref:%s", cls, ocls),
							fmt.Sprintf("%s at %s:%v: definition %s, but its reference at %s@%v has definition %s", t.Val, f.Rel, p, fmtLocs(ws, dp),
								ws.Rel(rl.URI), rl.Range, fmtLocs(ws, dr)), witness(nil))
						break
					}
				}
			}
			// (b) p is among the references of its own definition
			if len(dp) == 1 {
				d0 := dp[0]
				if sw.ByRel[ws.Rel(d0.URI)] != nil {
					rd, _, err := srv.References(d0.URI, d0.Range.Start.Line, d0.Range.Start.Character)
					if err != nil {
						fail()
						return
					}
					c.Count("clause_b_checks", 1)
					if !locIn(rd, own.URI, own.Range) {
						// the declaration's own position may sit in a resolver trigger class
						dcls := "unknown"
						if df := sw.ByRel[ws.Rel(d0.URI)]; df != nil && df.Parse.Valid() {
							if off, ok := (&RText{B: df.Src}).Offset(d0.Range.Start); ok {
								for _, tt := range df.Parse.Lex.Toks {
									if tt.Off == off && tt.K == TName {
										dcls = c12Class(nameClass(df, tt), df.Bind.ByOff[tt.Off] != nil)
									}
								}
							}
						}
						c.Report(fmt.Sprintf("b:not-among-references-of-own-definition|p:%s|def:%s", cls, dcls),
							fmt.Sprintf("%s at %s:%v has definition %s but is not among that declaration's references %s", t.Val, f.Rel, p, fmtLocs(ws, dp),
								truncate(fmtLocs(ws, rd), 300)), witness(map[string]interface{}{"refs_of_definition": fmtLocs(ws, rd)}))
					}
				}
			}
			// (c) highlight = references restricted to this file
			hl, _, err := srv.Highlight(uri, p.Line, p.Character)
			if err != nil {
				fail()
				return
			}
			c.Count("highlight_queries", 1)
			var hs, rs []string
			for _, h := range hl {
				hs = append(hs, h.Range.String())
			}
			for _, rl := range refs {
				if rl.URI == uri {
					rs = append(rs, rl.Range.String())
				}
			}
			sort.Strings(hs)
			sort.Strings(rs)
			if strings.Join(hs, ",") != strings.Join(rs, ",") {
				kind := "differs"
				if len(hs) == 0 {
					kind = "empty-highlight"
				} else if len(rs) == 0 {
					kind = "highlight-without-references"
				}
				c.Report(fmt.Sprintf("c:highlight-vs-references|%s|p:%s", kind, cls),
					fmt.Sprintf("%s at %s:%v: highlight %v but same-file references %v", t.Val, f.Rel, p, hs, rs), witness(map[string]interface{}{"highlight": hs}))
			}
			// (d) hover
			hv, _, err := srv.Hover(uri, p.Line, p.Character)
			if err != nil {
				fail()
				return
			}
			c.Count("hover_queries", 1)
			if hv != nil && strings.TrimSpace(hv.Contents.Value) != "" {
				label := hoverLabel(hv.Contents.Value)
				if luaBuiltins[t.Val] && isVar && f.Bind.ByOff[t.Off].Decl == nil {
					c.Count("dont_care_builtin_hover", 1)
				} else if !strings.Contains(label, t.Val) {
					c.Report(fmt.Sprintf("d:hover-does-not-name-identifier|p:%s", cls),
						fmt.Sprintf("hover on %s at %s:%v shows %q", t.Val, f.Rel, p, truncate(label, 200)), witness(map[string]interface{}{"hover": hv.Contents.Value}))
				} else if len(dp) == 1 {
					// is the definition syntactically a local declaration?
					df := sw.ByRel[ws.Rel(dp[0].URI)]
					if df != nil && df.Parse.Valid() {
						if off, ok := (&RText{B: df.Src}).Offset(dp[0].Range.Start); ok {
							if o := df.Bind.ByOff[off]; o != nil {
								isLocalDecl := o.IsDecl && o.Decl != nil
								saysLocal := strings.HasPrefix(strings.TrimSpace(label), "local ")
								c.Count("clause_d_local_checks", 1)
								if isLocalDecl != saysLocal && t.Val == o.Tok.Val {
									c.Report(fmt.Sprintf("d:hover-local-mismatch|decl-is-local=%v|p:%s", isLocalDecl, cls),
										fmt.Sprintf("hover on %s at %s:%v shows %q but its definition %s is local=%v", t.Val, f.Rel, p, truncate(label, 120),
											fmtLocs(ws, dp), isLocalDecl), witness(map[string]interface{}{"hover": hv.Contents.Value}))
								}
							}
						}
					}
				}
			}
		}
	}
}

// hoverLabel extracts the code block of a hover markdown value.
func hoverLabel(v string) string {
	i := strings.Index(v, "```lua")
	if i < 0 {
		return v
	}
	rest := v[i+6:]
	j := strings.Index(rest, "```")
	if j < 0 {
		return rest
	}
	return strings.TrimSpace(rest[:j])
}

// c12Class coarsens a name class to what distinguishes root causes: variables in a resolver trigger
// class, plainly placed variables (with their descriptive class), and member-like identifiers.
func c12Class(cls string, isVar bool) string {
	if !isVar {
		parts := strings.SplitN(cls, "|", 2)
		return "member:" + parts[len(parts)-1]
	}
	if isResolverClass(cls) {
		return "var:resolver-trigger-class"
	}
	parts := strings.SplitN(cls, "|", 2)
	return "var:" + parts[len(parts)-1]
}

// c12GFiles: two files in which a few globals (each defined exactly once) are read both plainly and as _G.name, inside
// blocks where a local, parameter or loop variable of the same name is in scope (shadowing locals are also written).
func c12GFiles(r *Rng) map[string]string {
	pool := []string{"gcount", "gTotal", "gState", "gFlag"}
	var names []string
	for _, i := range r.Perm(len(pool))[:r.Range(2, 3)] {
		names = append(names, pool[i])
	}
	var gen func(sb *strings.Builder, ind string, depth int, k *int, shadowed map[string]bool)
	stmt := func(sb *strings.Builder, ind string, n string, k *int, shadowed map[string]bool) {
		*k++
		switch r.Intn(7) {
		case 0:
			fmt.Fprintf(sb, "%sprint(_G.%s)\n", ind, n)
		case 1:
			fmt.Fprintf(sb, "%slocal u%d = _G.%s + 1\n%sprint(u%d)\n", ind, *k, n, ind, *k)
		case 2:
			fmt.Fprintf(sb, "%sprint(%s)\n", ind, n)
		case 3:
			if shadowed[n] {
				fmt.Fprintf(sb, "%s%s = %s + _G.%s\n", ind, n, n, n)
			} else {
				fmt.Fprintf(sb, "%sprint(%s + _G.%s)\n", ind, n, n)
			}
		case 4:
			fmt.Fprintf(sb, "%slocal t%d = { v = _G.%s, w = %s }\n%sprint(t%d)\n", ind, *k, n, n, ind, *k)
		case 5:
			fmt.Fprintf(sb, "%sif _G.%s == %s then print(%d) end\n", ind, n, n, *k)
		default:
			fmt.Fprintf(sb, "%sprint(_G.%s, %s, _G.%s)\n", ind, n, n, r.Pick(names))
		}
	}
	with := func(m map[string]bool, n string) map[string]bool {
		o := map[string]bool{n: true}
		for k := range m {
			o[k] = true
		}
		return o
	}
	gen = func(sb *strings.Builder, ind string, depth int, k *int, shadowed map[string]bool) {
		for i := r.Range(2, 5); i > 0; i-- {
			n := r.Pick(names)
			if depth < 3 && r.Chance(1, 3) {
				*k++
				id := *k
				switch r.Intn(4) {
				case 0:
					fmt.Fprintf(sb, "%sdo\n%s  local %s = %d\n", ind, ind, n, id)
					gen(sb, ind+"  ", depth+1, k, with(shadowed, n))
					fmt.Fprintf(sb, "%send\n", ind)
				case 1:
					fmt.Fprintf(sb, "%slocal function fn%d(%s)\n", ind, id, n)
					gen(sb, ind+"  ", depth+1, k, with(shadowed, n))
					fmt.Fprintf(sb, "%s  return %s\n%send\n%sprint(fn%d(1))\n", ind, n, ind, ind, id)
				case 2:
					fmt.Fprintf(sb, "%sfor %s = 1, 2 do\n", ind, n)
					gen(sb, ind+"  ", depth+1, k, with(shadowed, n))
					fmt.Fprintf(sb, "%send\n", ind)
				default:
					fmt.Fprintf(sb, "%sfor _, %s in pairs({}) do\n", ind, n)
					gen(sb, ind+"  ", depth+1, k, with(shadowed, n))
					fmt.Fprintf(sb, "%send\n", ind)
				}
				continue
			}
			stmt(sb, ind, n, k, shadowed)
		}
	}
	files := map[string]string{}
	var a strings.Builder
	for _, n := range names {
		a.WriteString(n + " = 0\n")
	}
	k := 0
	gen(&a, "", 0, &k, map[string]bool{})
	if r.Bool() {
		// a file-level local shadows one global for the rest of the file
		n := r.Pick(names)
		fmt.Fprintf(&a, "local %s = 7\n", n)
		gen(&a, "", 1, &k, map[string]bool{n: true})
	}
	files["ga.lua"] = a.String()
	var b strings.Builder
	gen(&b, "", 0, &k, map[string]bool{})
	files["gb.lua"] = b.String()
	return files
}

// c12AnnoFiles: annotated locals / globals / functions and unannotated variables fed from them.
func c12AnnoFiles(r *Rng) map[string]string {
	var sb strings.Builder
	k := r.Intn(1000)
	cls := fmt.Sprintf("Pt%d", k)
	fmt.Fprintf(&sb, "---@class %s\n---@field px number\n---@field py string\nlocal %sProto = {}\n", cls, cls)
	// annotated sources: one local, one global, functions with ---@return of either locality
	fmt.Fprintf(&sb, "---@type %s\nlocal srcLoc%d = {}\n", cls, k)
	fmt.Fprintf(&sb, "---@type %s\nSrcGlob%d = {}\n", cls, k)
	fmt.Fprintf(&sb, "---@return %s\nlocal function mkLoc%d() return srcLoc%d end\n", cls, k, k)
	fmt.Fprintf(&sb, "---@return %s\nfunction MkGlob%d() return SrcGlob%d end\n", cls, k, k)
	srcs := []string{fmt.Sprintf("srcLoc%d", k), fmt.Sprintf("SrcGlob%d", k), fmt.Sprintf("mkLoc%d()", k), fmt.Sprintf("MkGlob%d()", k),
		fmt.Sprintf("srcLoc%d.px", k), fmt.Sprintf("SrcGlob%d.py", k), fmt.Sprintf("mkLoc%d().px", k)}
	var names []string
	n := r.Range(3, 8)
	for i := 0; i < n; i++ {
		src := r.Pick(srcs)
		if len(names) > 0 && r.Chance(1, 4) {
			src = r.Pick(names) // a chain: fed from an earlier fed variable
		}
		var nm string
		if r.Bool() {
			nm = fmt.Sprintf("fedLoc%d_%d", k, i)
			fmt.Fprintf(&sb, "local %s = %s\n", nm, src)
		} else {
			nm = fmt.Sprintf("FedGlob%d_%d", k, i)
			fmt.Fprintf(&sb, "%s = %s\n", nm, src)
		}
		names = append(names, nm)
	}
	sb.WriteString("print(" + strings.Join(names, ", ") + ")\n")
	files := map[string]string{"anno.lua": sb.String()}
	// the globals are also read from a second file
	var other strings.Builder
	for _, nm := range names {
		if strings.HasPrefix(nm, "FedGlob") {
			fmt.Fprintf(&other, "print(%s)\n", nm)
		}
	}
	fmt.Fprintf(&other, "print(SrcGlob%d, MkGlob%d())\n", k, k)
	files["other.lua"] = other.String()
	return files
}

// c12MemberFiles: a table (local with a require alias in a second file, or global) whose members are declared down to
// depth 3, through constructor keys and through assignments, the same key names recurring at every depth, and read back
// through full chains.
func c12MemberFiles(r *Rng) map[string]string {
	k := r.Intn(1000)
	keys := []string{fmt.Sprintf("port%d", k), fmt.Sprintf("host%d", k), fmt.Sprintf("limit%d", k)}
	subs := []string{fmt.Sprintf("client%d", k), fmt.Sprintf("server%d", k)}
	global := r.Bool()
	root := fmt.Sprintf("cfg%d", k)
	if global {
		root = fmt.Sprintf("GCfg%d", k)
	}
	var sb strings.Builder
	decl := "local "
	if global {
		decl = ""
	}
	ctor := r.Bool()
	var chains []string
	if ctor {
		fmt.Fprintf(&sb, "%s%s = {\n", decl, root)
		for _, key := range keys {
			if r.Chance(2, 3) {
				fmt.Fprintf(&sb, "  %s = %d,\n", key, r.Intn(100))
				chains = append(chains, root+"."+key)
			}
		}
		for _, sub := range subs {
			fmt.Fprintf(&sb, "  %s = {", sub)
			for _, key := range keys {
				if r.Chance(2, 3) {
					fmt.Fprintf(&sb, " %s = %d,", key, r.Intn(100))
					chains = append(chains, root+"."+sub+"."+key)
				}
			}
			sb.WriteString(" },\n")
		}
		sb.WriteString("}\n")
	} else {
		fmt.Fprintf(&sb, "%s%s = {}\n", decl, root)
		for _, key := range keys {
			if r.Chance(2, 3) {
				fmt.Fprintf(&sb, "%s.%s = %d\n", root, key, r.Intn(100))
				chains = append(chains, root+"."+key)
			}
		}
		for _, sub := range subs {
			fmt.Fprintf(&sb, "%s.%s = {}\n", root, sub)
			for _, key := range keys {
				if r.Chance(2, 3) {
					if r.Bool() {
						fmt.Fprintf(&sb, "%s.%s.%s = %d\n", root, sub, key, r.Intn(100))
					} else {
						fmt.Fprintf(&sb, "%s.%s.%s = function(a) return a end\n", root, sub, key)
					}
					chains = append(chains, root+"."+sub+"."+key)
				}
			}
		}
	}
	// a colon method of the table that reaches the table's own members through self, directly and from functions nested
	// in the method
	var own []string
	for _, ch := range chains {
		if strings.Count(ch, ".") == 1 {
			own = append(own, ch[strings.Index(ch, ".")+1:])
		}
	}
	hasMeth := false
	if len(own) > 0 && r.Bool() {
		hasMeth = true
		k1, k2 := r.Pick(own), r.Pick(own)
		fmt.Fprintf(&sb, "function %s:meth%d(n)\n  local function nested%d()\n    return self.%s\n  end\n  self.%s = nested%d()\n  return function()\n    return self.%s, n\n  end\nend\n", root, k, k, k1, k1, k, k2)
	}
	n := r.Range(2, 6)
	for i := 0; i < n && len(chains) > 0; i++ {
		a, b := r.Pick(chains), r.Pick(chains)
		switch r.Intn(3) {
		case 0:
			fmt.Fprintf(&sb, "print(%s, %s)\n", a, b)
		case 1:
			fmt.Fprintf(&sb, "%s = %s\n", a, b)
		default:
			fmt.Fprintf(&sb, "local function use%d_%d()\n  return %s\nend\nprint(use%d_%d)\n", k, i, a, k, i)
		}
	}
	files := map[string]string{}
	var other strings.Builder
	alias := root
	if !global {
		fmt.Fprintf(&sb, "return %s\n", root)
		alias = fmt.Sprintf("m%d", k)
		fmt.Fprintf(&other, "local %s = require(\"conf%d\")\n", alias, k)
	}
	for i := 0; i < r.Range(1, 4) && len(chains) > 0; i++ {
		ch := r.Pick(chains)
		ch = alias + ch[len(root):]
		fmt.Fprintf(&other, "print(%s)\n", ch)
	}
	if hasMeth {
		// the method called from the other file, with colon and with dot syntax, at top level and inside a function
		fmt.Fprintf(&other, "%s:meth%d(1)\nprint(%s.meth%d(%s, 2))\nlocal function caller%d()\n  return %s:meth%d(3)\nend\nprint(caller%d)\n", alias, k, alias, k, alias, k, alias, k, k)
	}
	files[fmt.Sprintf("conf%d.lua", k)] = sb.String()
	files["use.lua"] = other.String()
	return files
}
