package main

// Scoping workspaces shared by C05/C06/C11/C12/C14: generated multi-file programs, parsed and bound
// by the reference front end.

import (
	"fmt"
	"sort"
	"strings"
)

type SFile struct {
	Rel   string
	Text  string
	Src   []byte
	Parse *ParseResult
	Bind  *BindResult
}

type ScopeWS struct {
	Files      []*SFile
	ByRel      map[string]*SFile
	GlobalDefs map[string][]GSite // free-name write sites per name, over all files
	GlobalUses map[string][]GSite // every free-name occurrence per name
	Loose      bool               // arbitrary files (repository testdata), not generator output
	DeclMember bool               // Loose, and every member chain in the files is declared down to its last key
	Late       string             // a file that is created (watched-file event) only after the server has loaded the rest; "" = none
	LazyOpen   bool               // the client opens a document only when it first works in it (instead of all documents at the start)
	Roots      []string           // workspace folders (sibling directories under the scratch root; the first is the main folder); nil = one folder
}

// AddFile appends a further (valid) file to the workspace.
func (ws *ScopeWS) AddFile(rel, txt string) {
	pr := RParse([]byte(txt))
	if !pr.Valid() {
		panic("harness: AddFile with an invalid program: " + txt)
	}
	f := &SFile{Rel: rel, Text: txt, Src: []byte(txt), Parse: pr, Bind: RBind(pr)}
	ws.Files = append(ws.Files, f)
	ws.ByRel[rel] = f
	ws.index()
}

// AddFileNamedLikeAGlobal adds a small module whose base name equals the name of a global the workspace uses (with the
// default options the name of a file has no bearing on the analysis of a variable of that name).
func (ws *ScopeWS) AddFileNamedLikeAGlobal(r *Rng) string {
	n := r.Pick([]string{"GAlpha", "GBeta", "GGamma", "GFunc", "GInner", "GNever1", "GNever2", "GMulti1"})
	ws.AddFile("lib/"+n+".lua", "local filler = 1\nreturn filler\n")
	return n
}

// WithRequireOfModuleNamedLikeAGlobal returns the workspace extended by a module file whose name is that of a global one
// of the files uses, and by a `require("<name>")` at the top of that file (the old global-module idiom: the module's
// file name and the global it is used through coincide; what the name is bound to does not depend on the require).
func (ws *ScopeWS) WithRequireOfModuleNamedLikeAGlobal(r *Rng) (*ScopeWS, string) {
	var names []string
	for n, uses := range ws.GlobalUses {
		if len(uses) > 0 && !luaBuiltins[n] {
			names = append(names, n)
		}
	}
	if len(names) == 0 {
		return ws, ""
	}
	sort.Strings(names)
	n := names[r.Intn(len(names))]
	site := ws.GlobalUses[n][r.Intn(len(ws.GlobalUses[n]))]
	files := ws.FileMap()
	files[site.File.Rel] = "require(\"" + n + "\")\n" + files[site.File.Rel]
	files["lib/"+n+".lua"] = "local filler = 1\nreturn filler\n"
	nw, ok := ScopeWSFromFiles(files)
	if !ok {
		return ws, ""
	}
	nw.Roots, nw.Late = ws.Roots, ws.Late
	return nw, n
}

// Reroot spreads the files over several workspace folders that lie next to each other (none inside another).
func (ws *ScopeWS) Reroot(roots []string) {
	ws.Roots = roots
	ws.ByRel = map[string]*SFile{}
	for i, f := range ws.Files {
		f.Rel = roots[i%len(roots)] + "/" + f.Rel
		ws.ByRel[f.Rel] = f
	}
}

// Spread moves the files into directories of one workspace folder whose last path elements are equal (ui/src, net/src,
// src/src): sub-directories with the same base name under different parents, and one nested in a directory of its own name.
func (ws *ScopeWS) Spread() {
	dirs := []string{"ui", "net", "src"}
	ws.LazyOpen = true
	ws.ByRel = map[string]*SFile{}
	for i, f := range ws.Files {
		f.Rel = dirs[i%len(dirs)] + "/" + f.Rel
		ws.ByRel[f.Rel] = f
	}
}

type GSite struct {
	File *SFile
	Occ  *Occ
}

var luaBuiltins = map[string]bool{}

func init() {
	for _, n := range []string{"print", "pairs", "ipairs", "type", "tostring", "tonumber", "math", "string", "table", "os", "io",
		"require", "select", "next", "error", "assert", "pcall", "xpcall", "setmetatable", "getmetatable", "rawget", "rawset",
		"rawequal", "rawlen", "unpack", "coroutine", "debug", "package", "load", "loadstring", "loadfile", "dofile", "collectgarbage",
		"_G", "_ENV", "_VERSION", "self", "utf8", "bit", "bit32", "jit", "module", "import", "arg", "getfenv", "setfenv", "newproxy", "gcinfo"} {
		luaBuiltins[n] = true
	}
}

type ScopeCfg struct {
	NFiles  int
	Unique  bool
	Depth   int
	Stats   int
	NoGoto  bool
	Spaced  bool // token-per-space rendering instead of conventional formatting
	NoMulti bool // no multiply-assigned globals (every global has at most one definition site)
	JoinPct int  // see Trivia.JoinPct
	GluePct int  // see Trivia.GluePct (-1 = drawn per workspace)
	Zoo     bool // string literals from the zoo: every escape form, non-ASCII text, long strings over several lines (also with
	// non-ASCII text on their last line and with a line break directly after the opening bracket)
}

// GenScopeWS builds a workspace of valid programs with shadowing, closures and cross-file globals.
// Text is plain ASCII, LF, no string/numeral zoo: column bookkeeping is C04's business, not C05's.
func GenScopeWS(r *Rng, sc ScopeCfg) *ScopeWS {
	if sc.JoinPct < 0 {
		// drawn from a separate stream so that the rest of the workspace does not depend on it
		sc.JoinPct = []int{0, 0, 0, 60}[r.Fork(0x6a6f696e).Intn(4)]
	}
	if sc.GluePct < 0 {
		sc.GluePct = []int{0, 0, 50, 100}[r.Fork(0x676c7565).Intn(4)]
	}
	if sc.NFiles == 0 {
		sc.NFiles = r.Range(2, 4)
	}
	if sc.Depth == 0 {
		sc.Depth = r.Range(2, 5)
	}
	if sc.Stats == 0 {
		sc.Stats = r.Range(3, 6)
	}
	singles := []string{"GAlpha", "GBeta", "GGamma", "GFunc", "GInner"}
	multis := []string{"GMulti1", "GMulti2"}
	if sc.NoMulti {
		multis = nil
	}
	nevers := []string{"GNever1", "GNever2"}
	globals := append(append(append([]string{}, singles...), multis...), nevers...)
	// each single-definition global is defined exactly once, at top level of one file
	plans := make([][]GDef, sc.NFiles)
	for _, n := range singles {
		fi := r.Intn(sc.NFiles)
		style := 0
		if n == "GFunc" {
			style = 1
		} else if n == "GInner" {
			style = 2
		}
		plans[fi] = append(plans[fi], GDef{n, style})
	}
	ws := &ScopeWS{ByRel: map[string]*SFile{}, GlobalDefs: map[string][]GSite{}, GlobalUses: map[string][]GSite{}}
	for i := 0; i < sc.NFiles; i++ {
		var f *SFile
		for try := 0; try < 20; try++ {
			rr := r.Fork(uint64(i*100 + try))
			cfg := DefaultGenCfg()
			cfg.MaxDepth = sc.Depth
			cfg.ExpDepth = rr.Range(1, 3)
			cfg.Stats = sc.Stats
			cfg.StringZoo = sc.Zoo
			cfg.NumeralZoo = false
			cfg.NoLongArgs = true
			cfg.Goto = !sc.NoGoto && rr.Chance(1, 3)
			cfg.Attribs = rr.Chance(1, 3)
			cfg.Unique = sc.Unique
			cfg.FilePrefix = fmt.Sprintf("f%d", i)
			cfg.NamePool = []string{"a", "b", "c", "x", "y", "val", "idx", "tbl"}
			if rr.Bool() {
				cfg.NamePool = cfg.NamePool[:4] // heavier shadowing
			}
			// GNever* are only read, never written: assignable() draws from GlobalPool, so split
			cfg.GlobalPool = globals
			g := NewGen(rr, cfg)
			g.Budget = 1200
			g.neverWrite = map[string]bool{}
			for _, n := range append(append([]string{}, singles...), nevers...) {
				g.neverWrite[n] = true
			}
			g.PendingDefs = append([]GDef(nil), plans[i]...)
			toks := g.Chunk()
			txt := Render(rr, toks, Trivia{LineEnd: "\n", Indent: true, Pretty: !sc.Spaced, JoinPct: sc.JoinPct, GluePct: sc.GluePct})
			pr := RParse([]byte(txt))
			if !pr.Valid() {
				panic("harness: scope generator produced invalid program: " + pr.Err + "\n" + txt)
			}
			br := RBind(pr)
			if len(br.SemanticOnly()) > 0 {
				continue
			}
			f = &SFile{Rel: fmt.Sprintf("src/mod%d.lua", i), Text: txt, Src: []byte(txt), Parse: pr, Bind: br}
			break
		}
		if f == nil {
			panic("harness: could not generate a semantically clean program")
		}
		ws.Files = append(ws.Files, f)
		ws.ByRel[f.Rel] = f
	}
	ws.index()
	return ws
}

func (ws *ScopeWS) index() {
	ws.GlobalDefs = map[string][]GSite{}
	ws.GlobalUses = map[string][]GSite{}
	for _, f := range ws.Files {
		names := make([]string, 0, len(f.Bind.Globals))
		for n := range f.Bind.Globals {
			names = append(names, n)
		}
		sort.Strings(names)
		for _, n := range names {
			for _, o := range f.Bind.Globals[n] {
				ws.GlobalUses[n] = append(ws.GlobalUses[n], GSite{f, o})
				if o.GlobalDef {
					ws.GlobalDefs[n] = append(ws.GlobalDefs[n], GSite{f, o})
				}
			}
		}
	}
}

func (ws *ScopeWS) FileMap() map[string]string {
	m := map[string]string{}
	for _, f := range ws.Files {
		m[f.Rel] = f.Text
	}
	return m
}

func (f *SFile) TokRange(t *Tok) Range {
	return Range{posAt(f.Src, t.Off), posAt(f.Src, t.End)}
}

// occClass names the syntactic trigger class of an occurrence for violation signatures.
func occClass(f *SFile, o *Occ) string {
	name := o.Tok.Val
	var found, desc string // found: resolver-relevant class (innermost wins); desc: descriptive only
	var walk func(b *Node)
	inSpan := func(n *Node) bool {
		return n != nil && n.First != nil && n.Last != nil && o.Tok.Off >= n.First.Off && o.Tok.End <= n.Last.End
	}
	var inFuncLit func(e *Node) bool
	inFuncLit = func(e *Node) bool {
		if e == nil {
			return false
		}
		if e.K == EFunction {
			return inSpan(e)
		}
		if inFuncLit(e.A) || inFuncLit(e.B) || inFuncLit(e.C) {
			return true
		}
		for _, x := range e.List {
			if inFuncLit(x) {
				return true
			}
		}
		return false
	}
	walk = func(b *Node) {
		if b == nil || found != "" {
			return
		}
		for _, s := range b.List {
			if !inSpan(s) {
				continue
			}
			switch s.K {
			case SLocal:
				// descend into function literals in the initialiser first: deeper classes win
				for _, e := range s.List2 {
					walkExpFns(e, walk)
				}
				for _, n := range s.Names {
					if n.Val == name && found == "" {
						found = "in-initialiser-of-same-named-local"
					}
				}
			case SForNum:
				walkExpFns(s.A, walk)
				walkExpFns(s.B, walk)
				walkExpFns(s.C, walk)
				if found == "" && (inFuncLit(s.A) || inFuncLit(s.B) || inFuncLit(s.C)) {
					found = "within-function-literal-in-for-header"
				}
				walk(s.Body)
				if s.Names[0].Val == name && !inSpan(s.Body) && found == "" {
					found = "in-bounds-of-same-named-numeric-for"
					if !inSpan(s.A) {
						found = "in-bounds-of-same-named-numeric-for:limit-or-step"
					}
				}
			case SForIn:
				for _, e := range s.List2 {
					walkExpFns(e, walk)
					if found == "" && inFuncLit(e) {
						found = "within-function-literal-in-for-header"
					}
				}
				walk(s.Body)
				for _, n := range s.Names {
					if n.Val == name && !inSpan(s.Body) && found == "" {
						found = "in-explist-of-same-named-generic-for"
					}
				}
			case SRepeat:
				if inSpan(s.A) {
					walkExpFns(s.A, walk)
					if desc == "" {
						desc = "in-until-condition"
						if inFuncLit(s.A) {
							desc = "within-function-literal-in-until-condition"
						}
					}
				}
				walk(s.Body)
			case SIf:
				for _, bl := range s.Blocks {
					walk(bl)
				}
				walk(s.Body)
				for _, e := range s.List {
					walkExpFns(e, walk)
				}
			case SDo, SWhile:
				walk(s.Body)
				walkExpFns(s.A, walk)
			case SFunction, SLocalFunction:
				if s.Fn != nil {
					walk(s.Fn.Body)
				}
			default:
				walkExpFns(s.A, walk)
				for _, e := range s.List {
					walkExpFns(e, walk)
				}
				for _, e := range s.List2 {
					walkExpFns(e, walk)
				}
				if s.K == SAssign && found == "" {
					inRHS := false
					for _, e := range s.List2 {
						if inSpan(e) {
							inRHS = true
						}
					}
					for _, v := range s.List {
						if inRHS && v.K == EName && v.Tok.Val == name {
							found = "in-rhs-of-assignment-to-same-name"
						}
					}
				}
			}
		}
	}
	walk(f.Parse.Chunk)
	if found != "" {
		return found
	}
	if o.IsDecl {
		return "declaration"
	}
	if desc != "" {
		return desc
	}
	if o.FuncNameBase {
		return "function-name-base"
	}
	if o.Write {
		return "assignment-target"
	}
	return "plain-read"
}

// walkExpFns finds function literals inside e and calls walk on their bodies.
func walkExpFns(e *Node, walk func(b *Node)) {
	if e == nil {
		return
	}
	if e.K == EFunction {
		walk(e.Fn.Body)
		return
	}
	walkExpFns(e.A, walk)
	walkExpFns(e.B, walk)
	walkExpFns(e.C, walk)
	for _, x := range e.List {
		walkExpFns(x, walk)
	}
}

// lineFeatures names textual surroundings of an identifier that LuaHelper's text-based cursor
// heuristics are sensitive to (used only to make violation signatures specific).
func lineFeatures(src []byte, t *Tok) string {
	ls := t.Off
	for ls > 0 && src[ls-1] != '\n' && src[ls-1] != '\r' {
		ls--
	}
	le := t.End
	for le < len(src) && src[le] != '\n' && src[le] != '\r' {
		le++
	}
	left := string(src[ls:t.Off])
	right := string(src[t.End:le])
	var feats []string
	// matchSpecialBracketsStr: a quote then ']' to the right, and a quote then '[' to the left
	rq := strings.IndexAny(right, "\"'")
	lq := strings.LastIndexAny(left, "\"'")
	if rq >= 0 && strings.Contains(right[rq:], "]") && lq >= 0 && strings.Contains(left[:lq], "[") {
		feats = append(feats, "between-bracketed-strings-on-line")
	}
	// the same identifier again exactly one character away (x,x=1 / x=x / x.x): the cursor tolerance windows of the two
	// tokens overlap
	name := string(src[t.Off:t.End])
	isWord := func(b byte) bool { return b == '_' || (b >= '0' && b <= '9') || (b >= 'a' && b <= 'z') || (b >= 'A' && b <= 'Z') }
	if len(right) > len(name) && !isWord(right[0]) && strings.HasPrefix(right[1:], name) && (len(right) == len(name)+1 || !isWord(right[len(name)+1])) {
		feats = append(feats, "same-identifier-one-character-away")
	} else if n := len(left); n > len(name) && !isWord(left[n-1]) && strings.HasSuffix(left[:n-1], name) && (n == len(name)+1 || !isWord(left[n-len(name)-2])) {
		feats = append(feats, "same-identifier-one-character-away")
	}
	if len(feats) == 0 {
		return "-"
	}
	return strings.Join(feats, "+")
}

func declKindName(o *Occ) string {
	if o.Decl == nil {
		return "global"
	}
	return o.Decl.Kind.String()
}

func locIn(locs []Location, uri string, r Range) bool {
	for _, l := range locs {
		if l.URI == uri && l.Range == r {
			return true
		}
	}
	return false
}

func fmtLocs(ws *Workspace, locs []Location) string {
	var s []string
	for _, l := range locs {
		s = append(s, ws.Rel(l.URI)+"@"+l.Range.String())
	}
	sort.Strings(s)
	return fmt.Sprint(s)
}

// visitNodes calls fn on n and every node below it.
func visitNodes(n *Node, fn func(*Node)) {
	if n == nil {
		return
	}
	fn(n)
	visitNodes(n.A, fn)
	visitNodes(n.B, fn)
	visitNodes(n.C, fn)
	visitNodes(n.Body, fn)
	visitNodes(n.Fn, fn)
	for _, x := range n.List {
		visitNodes(x, fn)
	}
	for _, x := range n.List2 {
		visitNodes(x, fn)
	}
	for _, x := range n.Blocks {
		visitNodes(x, fn)
	}
}

// inForHeaderFuncLit reports whether the byte offset lies inside a function literal written in the header
// (bounds / iterator expressions) of any enclosing for statement, at any depth.
func inForHeaderFuncLit(chunk *Node, off int) bool {
	hit := false
	visitNodes(chunk, func(s *Node) {
		if hit || (s.K != SForNum && s.K != SForIn) {
			return
		}
		hdr := []*Node{s.A, s.B, s.C}
		if s.K == SForIn {
			hdr = s.List2
		}
		for _, e := range hdr {
			visitNodes(e, func(x *Node) {
				if x.K == EFunction && x.First != nil && x.Last != nil && off >= x.First.Off && off <= x.Last.End {
					hit = true
				}
			})
		}
	})
	return hit
}

func unparenNode(e *Node) *Node {
	for e != nil && e.K == EParen && e.A != nil {
		e = e.A
	}
	return e
}

// occTriggerSet returns every resolver trigger class whose construct encloses the occurrence (occClass reports only
// the innermost one): an occurrence can sit in the limit of a same-named numeric for that itself lies inside a function
// literal in the initialiser of a same-named local.
func occTriggerSet(f *SFile, o *Occ) map[string]bool {
	name := o.Tok.Val
	set := map[string]bool{}
	in := func(n *Node) bool {
		return n != nil && n.First != nil && n.Last != nil && o.Tok.Off >= n.First.Off && o.Tok.End <= n.Last.End
	}
	hasFn := func(e *Node) bool {
		hit := false
		visitNodes(e, func(x *Node) {
			if x.K == EFunction && in(x) {
				hit = true
			}
		})
		return hit
	}
	visitNodes(f.Parse.Chunk, func(s *Node) {
		if !in(s) {
			return
		}
		switch s.K {
		case SLocal:
			for _, n := range s.Names {
				if n.Val == name {
					for _, e := range s.List2 {
						if in(e) {
							set["in-initialiser-of-same-named-local"] = true
						}
					}
				}
			}
		case SForNum:
			for i, e := range []*Node{s.A, s.B, s.C} {
				if in(e) {
					if s.Names[0].Val == name {
						if i == 0 {
							set["in-bounds-of-same-named-numeric-for"] = true
						} else {
							set["in-bounds-of-same-named-numeric-for:limit-or-step"] = true
						}
					}
					if hasFn(e) {
						set["within-function-literal-in-for-header"] = true
					}
				}
			}
		case SForIn:
			for _, e := range s.List2 {
				if in(e) {
					for _, n := range s.Names {
						if n.Val == name {
							set["in-explist-of-same-named-generic-for"] = true
						}
					}
					if hasFn(e) {
						set["within-function-literal-in-for-header"] = true
					}
				}
			}
		case SAssign:
			for _, e := range s.List2 {
				if in(e) {
					for _, v := range s.List {
						if v.K == EName && v.Tok.Val == name {
							set["in-rhs-of-assignment-to-same-name"] = true
						}
					}
				}
			}
		}
	})
	return set
}
