package main

import (
	"crypto/sha1"
	"encoding/hex"
	"encoding/json"
	"fmt"
	"os"
	"path/filepath"
	"regexp"
	"sort"
	"strconv"
	"strings"
	"sync"
	"sync/atomic"
	"time"
)

func verifHome() string {
	if h := os.Getenv("VERIF_HOME"); h != "" {
		return h
	}
	return "/verif"
}

// outDir is where evidence and replays are written: /verif itself, or VERIF_OUT when the same commands are
// pointed at a scratch mutant copy (so that a sensitivity run does not overwrite the committed evidence).
func outDir() string {
	if h := os.Getenv("VERIF_OUT"); h != "" {
		return h
	}
	return verifHome()
}

func buildDir() string {
	if h := os.Getenv("VERIF_BUILD_DIR"); h != "" {
		return h
	}
	return filepath.Join(verifHome(), ".build")
}

func repoDir() string {
	if h := os.Getenv("VERIF_REPO_DIR"); h != "" {
		return h
	}
	return "/repo"
}

// ---------------------------------------------------------------------------------------------
// Run context: one per check invocation.

type Ctx struct {
	Prop  string
	Tier  string
	Seed  uint64
	Start time.Time
	Tmp   string // scratch root under /tmp (dot-free), removed on exit

	mu         sync.Mutex
	violations []Violation
	knownHits  map[string]int // finding id -> hits
	findings   []Finding
	incon      []string
	counters   map[string]int64
	distinct   map[string]struct{}
	samples    []interface{}
	extra      map[string]interface{}
	assume     []string
	rule       string
	evals      int64
	level      string
	replayN    int
	collect    bool // reducer mode: violations are only collected
	collected  []Violation
}

type Violation struct {
	Sig    string
	What   string
	Replay string
}

type Finding struct {
	Kind  string // finding | fixed
	Prop  string
	ID    string
	Sig   string
	What  string
	Extra string
}

func loadFindings() []Finding {
	b, err := os.ReadFile(filepath.Join(verifHome(), "known_findings.txt"))
	if err != nil {
		return nil
	}
	var out []Finding
	for _, line := range strings.Split(string(b), "\n") {
		line = strings.TrimSpace(line)
		if line == "" || strings.HasPrefix(line, "#") {
			continue
		}
		if strings.HasPrefix(line, "finding:") {
			// finding: property=C04 id=C04-K2 sig=<signature> :: <what fails>
			rest := strings.TrimSpace(strings.TrimPrefix(line, "finding:"))
			parts := strings.SplitN(rest, " :: ", 2)
			f := Finding{Kind: "finding"}
			if len(parts) == 2 {
				f.What = parts[1]
			}
			head := parts[0]
			if i := strings.Index(head, " sig="); i >= 0 {
				f.Sig = strings.TrimSpace(head[i+5:])
				head = head[:i]
			}
			for _, kv := range strings.Fields(head) {
				if strings.HasPrefix(kv, "property=") {
					f.Prop = kv[9:]
				} else if strings.HasPrefix(kv, "id=") {
					f.ID = kv[3:]
				}
			}
			out = append(out, f)
		} else if strings.HasPrefix(line, "fixed:") {
			out = append(out, Finding{Kind: "fixed", What: line})
		}
	}
	return out
}

func NewCtx(prop, tier string) *Ctx {
	seed := uint64(1)
	if s := os.Getenv("VERIF_SEED"); s != "" {
		if v, err := strconv.ParseUint(s, 10, 64); err == nil {
			seed = v
		}
	}
	tmp, err := os.MkdirTemp("/tmp", "lhv")
	if err != nil {
		fmt.Println("cannot create scratch dir:", err)
		os.Exit(2)
	}
	c := &Ctx{Prop: prop, Tier: tier, Seed: seed, Start: time.Now(), Tmp: tmp, knownHits: map[string]int{},
		counters: map[string]int64{}, distinct: map[string]struct{}{}, extra: map[string]interface{}{}, level: "exploration"}
	for _, f := range loadFindings() {
		if f.Kind == "finding" && f.Prop == prop {
			c.findings = append(c.findings, f)
		}
	}
	return c
}

// ClearReplays removes replay files of earlier runs of this property and seed.
func (c *Ctx) ClearReplays() {
	olds, _ := filepath.Glob(filepath.Join(outDir(), "replays", fmt.Sprintf("*%s-seed%d-*.json", c.Prop, c.Seed)))
	for _, o := range olds {
		os.Remove(o)
	}
}

func (c *Ctx) Thorough() bool { return c.Tier == "thorough" }

// N picks a size by tier.
func (c *Ctx) N(quick, thorough int) int {
	if c.Thorough() {
		return thorough
	}
	return quick
}

func (c *Ctx) Count(k string, n int64) {
	c.mu.Lock()
	c.counters[k] += n
	c.mu.Unlock()
}

func (c *Ctx) Eval(n int64) {
	c.mu.Lock()
	c.evals += n
	c.mu.Unlock()
}

// Distinct records a non-trivial case by content key.
func (c *Ctx) Distinct(key string) {
	h := sha1.Sum([]byte(key))
	c.mu.Lock()
	c.distinct[string(h[:8])] = struct{}{}
	c.mu.Unlock()
}

func (c *Ctx) Sample(v interface{}) {
	c.mu.Lock()
	if len(c.samples) < 6 {
		c.samples = append(c.samples, v)
	}
	c.mu.Unlock()
}

func (c *Ctx) Set(k string, v interface{}) {
	c.mu.Lock()
	c.extra[k] = v
	c.mu.Unlock()
}

func (c *Ctx) Assume(s string) { c.assume = append(c.assume, s) }

func (c *Ctx) Inconclusive(why string) {
	c.mu.Lock()
	c.incon = append(c.incon, why)
	c.mu.Unlock()
}

// matchSig: a finding signature matches exactly, or by prefix when it ends in '*'.
func matchSig(pat, sig string) bool {
	if strings.HasPrefix(pat, "re:") {
		re, err := regexp.Compile(pat[3:])
		if err != nil {
			return false
		}
		return re.MatchString(sig)
	}
	if strings.HasSuffix(pat, "*") {
		return strings.HasPrefix(sig, strings.TrimSuffix(pat, "*"))
	}
	return pat == sig
}

// Report records a violation with signature sig unless it matches a known finding of this property.
// replay is any JSON-serialisable witness; it is written under /verif/replays for unlisted violations.
func (c *Ctx) Report(sig, what string, replay interface{}) {
	c.mu.Lock()
	defer c.mu.Unlock()
	if c.collect {
		c.collected = append(c.collected, Violation{Sig: sig, What: what})
		return
	}
	for _, f := range c.findings {
		if matchSig(f.Sig, sig) {
			c.knownHits[f.ID]++
			if c.knownHits[f.ID] == 1 {
				c.extra["known_witness_"+f.ID] = map[string]interface{}{"sig": sig, "what": what, "case": replay}
			}
			return
		}
	}
	for _, v := range c.violations {
		if v.Sig == sig {
			c.counters["violation_repeats"]++
			return
		}
	}
	c.replayN++
	dir := filepath.Join(outDir(), "replays")
	os.MkdirAll(dir, 0o755)
	path := filepath.Join(dir, fmt.Sprintf("%s-seed%d-%d.json", c.Prop, c.Seed, c.replayN))
	b, _ := json.MarshalIndent(map[string]interface{}{"property": c.Prop, "signature": sig, "what": what, "seed": c.Seed,
		"tier": c.Tier, "case": replay}, "", " ")
	os.WriteFile(path, b, 0o644)
	c.violations = append(c.violations, Violation{sig, what, path})
	fmt.Printf("VIOLATION property=%s replay=%s\n", c.Prop, path)
	fmt.Printf("  signature: %s\n  what: %s\n", sig, what)
}

func (c *Ctx) Violated() bool {
	c.mu.Lock()
	defer c.mu.Unlock()
	return len(c.violations) > 0
}

// Finish writes the evidence file and exits with the verdict.
func (c *Ctx) Finish(rule string, minNontrivial int) {
	os.RemoveAll(c.Tmp)
	c.mu.Lock()
	ids := []string{}
	for _, f := range c.findings {
		ids = append(ids, f.ID)
	}
	known := map[string]int{}
	for _, f := range c.findings {
		n := c.knownHits[f.ID]
		known[f.ID] = n
		if n > 0 {
			fmt.Printf("KNOWN-FINDING: property=%s %s [%s, %d hits]\n", c.Prop, f.What, f.ID, n)
		} else {
			fmt.Printf("note: listed finding %s was not reproduced by this run (stale or not reached)\n", f.ID)
		}
	}
	cov := map[string]interface{}{}
	for k, v := range c.extra {
		cov[k] = v
	}
	cnt := map[string]int64{}
	for k, v := range c.counters {
		cnt[k] = v
	}
	cov["counters"] = cnt
	cov["evaluations"] = c.evals
	cov["distinct_nontrivial"] = len(c.distinct)
	cov["rule"] = rule
	if len(c.samples) == 0 {
		c.samples = append(c.samples, "none")
	}
	cov["samples"] = c.samples
	cov["known_finding_hits"] = known
	cov["inconclusive"] = c.incon
	verdict := "held-on-observed"
	if len(c.violations) > 0 {
		verdict = "violated"
	} else if len(c.incon) > 0 || len(c.distinct) < minNontrivial {
		verdict = "inconclusive"
		if len(c.distinct) < minNontrivial {
			c.incon = append(c.incon, fmt.Sprintf("only %d distinct non-trivial cases observed, minimum is %d", len(c.distinct), minNontrivial))
			cov["inconclusive"] = c.incon
		}
	}
	cov["verdict"] = verdict
	var vs []map[string]string
	for _, v := range c.violations {
		vs = append(vs, map[string]string{"sig": v.Sig, "what": v.What, "replay": v.Replay})
	}
	if vs != nil {
		cov["violation_list"] = vs
	}
	ev := map[string]interface{}{
		"property_id": c.Prop,
		"tier":        c.Tier,
		"seed":        int64(c.Seed),
		"level":       c.level,
		"coverage":    cov,
		"assumptions": append([]string{"the Go toolchain, the race detector, the harness's reference models and LSP driver"}, c.assume...),
		"wall_s":      time.Since(c.Start).Seconds(),
		"violations":  len(c.violations),
	}
	nviol := len(c.violations)
	incon := append([]string(nil), c.incon...)
	c.mu.Unlock()
	dir := filepath.Join(outDir(), "evidence")
	os.MkdirAll(dir, 0o755)
	b, _ := json.MarshalIndent(ev, "", " ")
	if err := os.WriteFile(filepath.Join(dir, c.Prop+".json"), append(b, '\n'), 0o644); err != nil {
		fmt.Println("cannot write evidence:", err)
		os.Exit(2)
	}
	keys := make([]string, 0, len(cnt))
	for k := range cnt {
		keys = append(keys, k)
	}
	sort.Strings(keys)
	var parts []string
	for _, k := range keys {
		parts = append(parts, fmt.Sprintf("%s=%d", k, cnt[k]))
	}
	fmt.Printf("%s %s seed=%d: verdict=%s evaluations=%d distinct_nontrivial=%d wall=%.1fs\n  %s\n", c.Prop, c.Tier, c.Seed, verdict,
		c.evals, len(c.distinct), time.Since(c.Start).Seconds(), strings.Join(parts, " "))
	if nviol > 0 {
		os.Exit(1)
	}
	if verdict == "inconclusive" {
		for _, s := range incon {
			fmt.Println("INCONCLUSIVE:", s)
		}
		os.Exit(2)
	}
	os.Exit(0)
}

// ---------------------------------------------------------------------------------------------
// Workspaces

type Workspace struct {
	Root  string            // absolute, dot-free
	Files map[string]string // relative path -> content (the client's copy)
}

var wsCounter int64
var wsMu sync.Mutex

func (c *Ctx) NewWorkspace(files map[string]string) *Workspace {
	wsMu.Lock()
	wsCounter++
	n := wsCounter
	wsMu.Unlock()
	root := filepath.Join(c.Tmp, fmt.Sprintf("w%d", n), "ws")
	os.MkdirAll(root, 0o755)
	w := &Workspace{Root: root, Files: map[string]string{}}
	for rel, txt := range files {
		w.Write(rel, txt)
	}
	return w
}

func (w *Workspace) Dir() string { return filepath.Dir(w.Root) } // scratch dir for journals

func (w *Workspace) Path(rel string) string { return filepath.Join(w.Root, rel) }
func (w *Workspace) URI(rel string) string  { return fileURI(w.Path(rel)) }

func (w *Workspace) Rel(uri string) string {
	p := uriPath(uri)
	r, err := filepath.Rel(w.Root, p)
	if err != nil {
		return p
	}
	return r
}

var wsTmpSeq int64

func (w *Workspace) Write(rel, txt string) {
	p := w.Path(rel)
	os.MkdirAll(filepath.Dir(p), 0o755)
	// atomic replace (temp file outside the workspace root, then rename): a server that reads the file while the client
	// is still flooding it with messages sees the old or the new content, never a truncated one
	tmp := filepath.Join(filepath.Dir(w.Root), fmt.Sprintf("wtmp%d", atomic.AddInt64(&wsTmpSeq, 1)))
	if err := os.WriteFile(tmp, []byte(txt), 0o644); err != nil || os.Rename(tmp, p) != nil {
		os.WriteFile(p, []byte(txt), 0o644)
	}
	w.Files[rel] = txt
}

func (w *Workspace) Delete(rel string) {
	os.Remove(w.Path(rel))
	delete(w.Files, rel)
}

func (w *Workspace) Remove() { os.RemoveAll(filepath.Dir(w.Root)) }

func (w *Workspace) Snapshot() map[string]string {
	m := map[string]string{}
	for k, v := range w.Files {
		m[k] = v
	}
	return m
}

func (w *Workspace) SortedFiles() []string {
	var ks []string
	for k := range w.Files {
		ks = append(ks, k)
	}
	sort.Strings(ks)
	return ks
}

func hashStr(s string) string {
	h := sha1.Sum([]byte(s))
	return hex.EncodeToString(h[:6])
}

// parallel runs f(i) for i in [0,n) on up to workers goroutines.
func parallel(n, workers int, f func(i int)) {
	if workers < 1 {
		workers = 1
	}
	var wg sync.WaitGroup
	ch := make(chan int)
	for w := 0; w < workers; w++ {
		wg.Add(1)
		go func() {
			defer wg.Done()
			for i := range ch {
				f(i)
			}
		}()
	}
	for i := 0; i < n; i++ {
		ch <- i
	}
	close(ch)
	wg.Wait()
}

func truncate(s string, n int) string {
	if len(s) > n {
		return s[:n] + "..."
	}
	return s
}

// CrashWitness stores the workspace and the journal tail of a server that died during a check whose
// property is not about crashes, so that C01 (and a human) can reproduce it. Returns the path.
func (c *Ctx) CrashWitness(srv *Server, files map[string]string) string {
	dir := filepath.Join(outDir(), "replays")
	os.MkdirAll(dir, 0o755)
	ci := srv.Crash()
	tail := ""
	if b, err := os.ReadFile(srv.JournalPth); err == nil {
		lines := strings.Split(strings.TrimSpace(string(b)), "\n")
		if len(lines) > 6 {
			lines = lines[len(lines)-6:]
		}
		tail = strings.Join(lines, "\n")
	}
	path := filepath.Join(dir, fmt.Sprintf("crash-%s-seed%d-%s.json", c.Prop, c.Seed, hashStr(ci.Sig()+tail)))
	b, _ := json.MarshalIndent(map[string]interface{}{"seen_by": c.Prop, "crash": ci, "signature": ci.Sig(), "journal_tail": tail,
		"files": files, "stderr_head": truncate(srv.StderrHead(3000), 3000)}, "", " ")
	os.WriteFile(path, b, 0o644)
	return path
}
