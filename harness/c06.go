package main

// C06 — find-references returns exactly the occurrences of the same variable.
// Monitor: textDocument/references from every occurrence vs R-bind's occurrence classes.

import (
	"fmt"
	"sort"
	"strings"
	"time"
)

// occClassSet returns the expected reference set (uri@range strings) for the binding of o.
func expectedRefs(ws *Workspace, sw *ScopeWS, f *SFile, o *Occ) map[string]bool {
	exp := map[string]bool{}
	add := func(ff *SFile, t *Tok) { exp[ws.URI(ff.Rel)+"@"+ff.TokRange(t).String()] = true }
	if o.Decl != nil {
		d := o.Decl
		if d.Tok != nil {
			add(f, d.Tok)
		}
		for _, r := range d.Reads {
			add(f, r.Tok)
		}
		for _, w := range d.Writes {
			add(f, w.Tok)
		}
		return exp
	}
	for _, g := range sw.GlobalUses[o.Tok.Val] {
		add(g.File, g.Occ.Tok)
	}
	return exp
}

func locSet(locs []Location) map[string]bool {
	m := map[string]bool{}
	for _, l := range locs {
		m[l.URI+"@"+l.Range.String()] = true
	}
	return m
}

func setDiff(a, b map[string]bool) []string {
	var out []string
	for k := range a {
		if !b[k] {
			out = append(out, k)
		}
	}
	sort.Strings(out)
	return out
}

// classOfLoc finds the occurrence at a uri@range key and returns its class (or "not-an-occurrence").
func classOfLoc(ws *Workspace, sw *ScopeWS, key string) string {
	i := strings.LastIndex(key, "@")
	uri, rg := key[:i], key[i+1:]
	for _, f := range sw.Files {
		if ws.URI(f.Rel) != uri {
			continue
		}
		for _, o := range f.Bind.Occs {
			if f.TokRange(o.Tok).String() == rg {
				if o.Tok.Val == "self" {
					return "self-token"
				}
				return lineFeatures(f.Src, o.Tok) + "|" + occClass(f, o)
			}
		}
	}
	for _, f := range sw.Files {
		if ws.URI(f.Rel) != uri {
			continue
		}
		if txt, ok := sliceRangeStr(f.Src, rg); ok {
			if txt == "self" {
				return "self-token"
			}
			return "not-a-variable-occurrence"
		}
	}
	return "outside-any-file"
}

func sliceRangeStr(src []byte, rg string) (string, bool) {
	var r Range
	if _, err := fmt.Sscanf(rg, "%d:%d-%d:%d", &r.Start.Line, &r.Start.Character, &r.End.Line, &r.End.Character); err != nil {
		return "", false
	}
	return sliceRange(src, r)
}

func runC06(c *Ctx) {
	nWS := c.N(250, 8000)
	root := NewRng(c.Seed).Fork(6)
	parallel(nWS, 14, func(i int) {
		r := root.Fork(uint64(i))
		sw := GenScopeWS(r, ScopeCfg{JoinPct: -1, GluePct: -1, Zoo: r.Fork(0x7a6f6f).Chance(1, 4)})
		if r.Fork(0x66696c65).Chance(1, 5) {
			sw.AddFileNamedLikeAGlobal(r.Fork(0x66696c66))
			c.Count("workspaces_with_a_file_named_like_a_global", 1)
		}
		if r.Fork(0x72657175).Chance(1, 5) {
			if sw2, n := sw.WithRequireOfModuleNamedLikeAGlobal(r.Fork(0x72657176)); n != "" {
				sw = sw2
				c.Count("workspaces_that_require_a_module_named_like_a_global_they_use", 1)
			}
		}
		if len(sw.Files) >= 2 && r.Fork(0x6c617465).Chance(1, 5) {
			// one file is created on disk only after the server has loaded the others
			sw.Late = sw.Files[len(sw.Files)-1].Rel
			c.Count("workspaces_with_a_file_created_later", 1)
		}
		if sw.Late == "" && r.Fork(0x726f6f74).Chance(1, 8) {
			sw.Reroot([]string{"rootA", "rootB"}) // the files are spread over two workspace folders next to each other
			c.Count("multi_root_workspaces", 1)
		}
		c.Eval(1)
		checkC06WS(c, sw, fmt.Sprintf("c06w%d", i))
		if i < 1 {
			c.Sample(map[string]interface{}{"files": sw.FileMap()})
		}
	})
	// unsaved-edit lane: one document's buffer differs from its file on disk
	nDirty := c.N(60, 1500)
	parallel(nDirty, 14, func(i int) {
		r := root.Fork(uint64(3000000 + i))
		sw := GenScopeWS(r, ScopeCfg{JoinPct: -1})
		c.Eval(1)
		c.Count("workspaces_with_an_unsaved_edit", 1)
		checkC06WSDirty(c, sw, fmt.Sprintf("c06d%d", i), sw.Files[r.Intn(len(sw.Files))].Rel)
	})
	// wide lane: many small files, so that the all-files search for a global hands out more files than its worker pool has workers
	nWide := c.N(12, 300)
	parallel(nWide, 6, func(i int) {
		r := root.Fork(uint64(1000000 + i))
		files := c06WideFiles(r)
		sw, ok := ScopeWSFromFiles(files)
		if !ok {
			c.Inconclusive("harness inconsistency: wide workspace not valid for the reference front end")
			return
		}
		c.Eval(1)
		c.Count("wide_workspaces", 1)
		c.Count("wide_workspace_files", int64(len(files)))
		checkC06WS(c, sw, fmt.Sprintf("c06wide%d", i))
	})
	c.Finish("generated 2-4 file workspaces as in C05, plus wide workspaces of 24-90 small files whose globals are used across many files (more files than the references "+
		"worker pool has workers); workspaces in which one open document has an unsaved edit that shifts every position of its buffer against the file on disk; answers must not list a location twice; textDocument/references (declaration included) from every variable-name occurrence is "+
		"compared as a set of (file, range) with the reference binder's occurrence class of that binding (locals: declaration+reads+writes; "+
		"globals: every unshadowed occurrence in every file). distinct_nontrivial = distinct (file text, occurrence) queried with a definite expectation", 300)
}

func init() { wsChecks["C06"] = checkC06WS }

func checkC06WS(c *Ctx, sw *ScopeWS, tag string) { checkC06WSDirty(c, sw, tag, "") }

// checkC06WSDirty: with dirtyRel != "", that document is first opened with a longer saved text (two extra statements
// on top) and then edited, without saving, to the text in sw - every position of the buffer differs from the file on disk.
func checkC06WSDirty(c *Ctx, sw *ScopeWS, tag string, dirtyRel string) {
	var ws *Workspace
	var srv *Server
	var err error
	if dirtyRel == "" {
		ws, srv, err = startScopeServer(c, sw, tag)
	} else {
		files := sw.FileMap()
		newText := files[dirtyRel]
		files[dirtyRel] = "local zzPad = 1\nprint(zzPad)\n" + newText
		ws = c.NewWorkspace(files)
		srv, err = StartServer(ServerOpts{Root: ws.Root, Tag: tag})
		if err == nil {
			for rel, txt := range files {
				srv.DidOpen(ws.URI(rel), txt)
			}
			if len(newText)%4 == 0 {
				// a long session came first: 21-25 rounds of edit and save on this document
				c.Count("dirty_documents_after_a_long_editing_session", 1)
				longSession(srv, ws, dirtyRel, files[dirtyRel], 21+len(newText)%5)
			}
			srv.DidChangeFull(ws.URI(dirtyRel), 2000, newText)
			err = srv.Fence()
		}
		if err != nil {
			if srv != nil {
				srv.Close()
			}
			ws.Remove()
		}
	}
	if err != nil {
		c.Inconclusive("server failed on a generated workspace (C01's business): " + err.Error())
		return
	}
	defer ws.Remove()
	defer srv.Close()
	for _, f := range sw.Files {
		uri := ws.URI(f.Rel)
		for _, o := range f.Bind.Occs {
			if !queryable(o) {
				continue
			}
			name := o.Tok.Val
			if o.Decl == nil && luaBuiltins[name] {
				c.Count("dont_care_builtin", 1)
				continue
			}
			if o.Decl == nil && dirtyRel != "" {
				// while a document has unsaved edits the workspace-wide global tables still describe the saved files (they
				// are rebuilt on save, by design); only file-local bindings are served from the live buffer
				c.Count("dont_care_global_while_a_buffer_is_unsaved", 1)
				continue
			}
			if o.Decl == nil && len(sw.GlobalDefs[name]) == 0 {
				// a name that is never assigned anywhere has no declaration to collect references for
				c.Count("dont_care_never_defined", 1)
				continue
			}
			p := posAt(f.Src, o.Tok.Off)
			locs, rerr, err := srv.References(uri, p.Line, p.Character)
			if err != nil {
				srv.WaitDeath(5 * time.Second)
				c.Inconclusive(fmt.Sprintf("server stopped answering (C01's business): %v; witness %s", err, c.CrashWitness(srv, sw.FileMap())))
				return
			}
			c.Count("references_queries", 1)
			cls := lineFeatures(f.Src, o.Tok) + "|" + occClass(f, o)
			witness := func(extra map[string]interface{}) interface{} {
				m := map[string]interface{}{"files": sw.FileMap(), "file": f.Rel, "position": p, "name": name, "answer": fmtLocs(ws, locs)}
				for k, v := range extra {
					m[k] = v
				}
				return m
			}
			if rerr != nil {
				c.Report("references-error|"+cls, fmt.Sprintf("references on %s at %s:%v returned error %s", name, f.Rel, p, rerr.Message), witness(nil))
				continue
			}
			exp := expectedRefs(ws, sw, f, o)
			got := locSet(locs)
			if len(got) != len(locs) {
				c.Report("duplicate-location|"+cls, fmt.Sprintf("references of %s at %s:%v lists a location more than once: %s", name, f.Rel, p, fmtLocs(ws, locs)), witness(nil))
			}
			c.Distinct(f.Text + fmt.Sprint(o.Tok.Off))
			if o.Decl != nil {
				c.Count("local_bindings_checked", 1)
			} else {
				c.Count("global_bindings_checked", 1)
			}
			c.Count("locations_compared", int64(len(exp)))
			missing := setDiff(exp, got)
			extra := setDiff(got, exp)
			if len(missing) == 0 && len(extra) == 0 {
				continue
			}
			sig := refsSignature(ws, sw, f, o, missing, extra, len(got) == 0)
			bk := strings.SplitN(sig, "|", 3)[1]
			c.Report(sig,
				fmt.Sprintf("references of %s %s at %s:%v: missing %v, extra %v", bk, name, f.Rel, p, relKeys(ws, missing), relKeys(ws, extra)),
				witness(map[string]interface{}{"missing": relKeys(ws, missing), "extra": relKeys(ws, extra)}))
		}
	}
}

func relKeys(ws *Workspace, keys []string) []string {
	var out []string
	for _, k := range keys {
		out = append(out, strings.TrimPrefix(k, "file://"+ws.Root+"/"))
	}
	return out
}

// resolverClasses are the syntactic trigger classes of the known position/statement-extent defects
// of LuaHelper's name resolution (findings C05-K1..K6); an occurrence in one of them may be bound
// wrongly by either resolver.
var resolverClasses = map[string]bool{
	"in-initialiser-of-same-named-local":                true,
	"in-bounds-of-same-named-numeric-for":               true,
	"in-bounds-of-same-named-numeric-for:limit-or-step": true,
	"in-explist-of-same-named-generic-for":              true,
	"in-rhs-of-assignment-to-same-name":                 true,
	"within-function-literal-in-for-header":             true,
}

func isResolverClass(cls string) bool {
	// cls = linefeature|class
	parts := strings.SplitN(cls, "|", 2)
	if len(parts) == 2 {
		if parts[0] != "-" {
			return true // between-bracketed-strings-on-line
		}
		return resolverClasses[parts[1]]
	}
	return cls == "self-token"
}

// refsSignature reduces a reference-set mismatch to its most specific root-cause label.
func refsSignature(ws *Workspace, sw *ScopeWS, f *SFile, o *Occ, missing, extra []string, empty bool) string {
	name := o.Tok.Val
	bk := "local"
	if o.Decl == nil {
		bk = "global-single-def"
		if len(sw.GlobalDefs[name]) > 1 {
			bk = "global-multi-def"
		}
	}
	qcls := lineFeatures(f.Src, o.Tok) + "|" + occClass(f, o)
	if isResolverClass(qcls) {
		return fmt.Sprintf("refs-mismatch|%s|query-in:%s", bk, qcls)
	}
	if empty {
		return fmt.Sprintf("refs-mismatch|%s|query:%s|empty-answer", bk, qcls)
	}
	cset := map[string]bool{}
	allResolver := true
	for _, k := range missing {
		cl := classOfLoc(ws, sw, k)
		if !isResolverClass(cl) {
			allResolver = false
			cl = "m:" + cl
		}
		cset[cl] = true
	}
	for _, k := range extra {
		cl := classOfLoc(ws, sw, k)
		if !isResolverClass(cl) {
			allResolver = false
			cl = "x:" + cl
		}
		cset[cl] = true
	}
	var cl []string
	for k := range cset {
		cl = append(cl, k)
	}
	sort.Strings(cl)
	if allResolver {
		return fmt.Sprintf("refs-mismatch|%s|diff-only:%s", bk, strings.Join(cl, ","))
	}
	// keep only the elements outside the known trigger classes, they carry the new information
	var rest []string
	for _, k := range cl {
		if strings.HasPrefix(k, "m:") || strings.HasPrefix(k, "x:") {
			rest = append(rest, k)
		}
	}
	return fmt.Sprintf("refs-mismatch|%s|query:%s|diff:%s", bk, qcls, strings.Join(rest, ","))
}

// c06WideFiles builds a workspace of many small files: every file defines one global and one global function and uses
// several globals of other files, on lines of their own.
func c06WideFiles(r *Rng) map[string]string {
	n := r.Range(24, 90)
	files := map[string]string{}
	for i := 0; i < n; i++ {
		var sb strings.Builder
		fmt.Fprintf(&sb, "GWide%d = %d\n", i, i)
		fmt.Fprintf(&sb, "function GWideFn%d(a, b)\n  local t = a\n", i)
		for k := 0; k < r.Range(1, 4); k++ {
			fmt.Fprintf(&sb, "  t = t + GWide%d\n", r.Intn(n))
		}
		fmt.Fprintf(&sb, "  return t + b\nend\n")
		for k := 0; k < r.Range(1, 3); k++ {
			fmt.Fprintf(&sb, "print(GWideFn%d(GWide%d, GWideShared))\n", r.Intn(n), r.Intn(n))
		}
		if i == 0 {
			sb.WriteString("GWideShared = 1\n")
		}
		dir := []string{"", "a/", "a/b/", "c/"}[r.Intn(4)]
		files[fmt.Sprintf("%sw%02d.lua", dir, i)] = sb.String()
	}
	return files
}
