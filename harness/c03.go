package main

// C03 — a file has a type-1 (syntax) diagnostic iff its text is not a valid chunk.
// Monitor: client view of a real server over batches of generated programs and single-token
// mutants, versus R-parse. Nothing is asserted about count, message or position.

import (
	"fmt"
	"regexp"
	"sort"
	"strings"
)

type c03Case struct {
	Name   string   `json:"name"`
	Text   string   `json:"text"`
	Origin string   `json:"origin"` // generated / mutant:<kind> / sentinel
	Valid  bool     `json:"valid"`
	Why    string   `json:"why,omitempty"` // R-parse error for invalid cases
	DCare  []string `json:"dont_care,omitempty"`
}

var c03Keywords = []string{"and", "break", "do", "else", "elseif", "end", "false", "for", "function", "goto", "if", "in", "local",
	"nil", "not", "or", "repeat", "return", "then", "true", "until", "while", "=", ",", "(", ")", "..", "::", "<", "x"}

// sentinel programs straight from the manual's grammar; valid flag decided by the production quoted.
var c03Sentinels = []struct {
	src   string
	valid bool
	why   string
}{
	{"(a) = 1", false, "var ::= Name | prefixexp[exp] | prefixexp.Name — a parenthesised expression is not a var"},
	{"a, f() = 1, 2", false, "a call is not a var"},
	{"f() = 1", false, "a call is not a var"},
	{"a.b:c = 1", false, "method name needs args"},
	{"a.b:c", false, "not a statement"},
	{"return 1 local x", false, "retstat must be last"},
	{"return return", false, "retstat must be last"},
	{"x = function() end()", false, "function literal is not a prefixexp"},
	{"for a.b = 1,2 do end", false, "for takes a Name"},
	{"local function t.f() end", false, "local function takes a Name"},
	{"local x <const> = 1", true, "attrib"},
	{"local x <close>, y = nil", true, "attrib"},
	{"local x <const", false, "attrib needs '>'"},
	{"goto done ::done::", true, "goto/label"},
	{"::a:: ::b::", true, "labels"},
	{":: a", false, "label needs closing ::"},
	{"a = 1 // 2 & 3 | 4 ~ 5 << 6 >> 7", true, "5.3 operators"},
	{"a = ~1", true, "unary bnot"},
	{"a = 1 ~= 2", true, "ne"},
	{"a = 2^-3^2", true, "right assoc pow with unary"},
	{"a = not not nil", true, "unary chain"},
	{"a = - - 1", true, "unary chain"},
	{"a = 1 .. 2 .. 3", true, "concat"},
	{"a = 1..2", false, "malformed number"},
	{"a = 0x", false, "malformed number"},
	{"a = 1e", false, "malformed number"},
	{"a = 1e+", false, "malformed number"},
	{"a = 0x1p", false, "malformed number"},
	{"a = 3x", false, "malformed number"},
	{"a = 0x.p1", false, "malformed number"},
	{"a = .5 + 5. + 0x.8 + 0x8. + 0xA.8p+1", true, "numerals"},
	{"a = 100LL + 0x10ULL + 7ull + 1ll", true, "LuaJIT suffixes"},
	{"a = \"\\q\"", false, "invalid escape"},
	{"a = \"\\x4\"", false, "hex escape needs two digits"},
	{"a = \"\\256\"", false, "decimal escape too large"},
	{"a = \"\\u{}\"", false, "empty \\u"},
	{"a = \"\\u{41\"", false, "unterminated \\u"},
	{"a = \"abc", false, "unfinished string"},
	{"a = 'abc\ndef'", false, "newline in short string"},
	{"a = 'abc\\\ndef'", true, "escaped newline"},
	{"a = \"a\\z   \n\n  b\"", true, "\\z"},
	{"a = [[x", false, "unfinished long string"},
	{"a = [==[ x ]=] ]==]", true, "long bracket levels"},
	{"a = [=x", false, "invalid long string delimiter"},
	{"--[[ unfinished", false, "unfinished long comment"},
	{"--[==[ x ]] ]==] a = 1", true, "long comment levels"},
	{"--[ not long\na = 1", true, "short comment starting with --["},
	{"#!/usr/bin/lua\na = 1", true, "first line #"},
	{"# anything ( [ \n", true, "first line # only"},
	{"f{1}{2}'s'[[l]](3)", true, "call chains with table/string args"},
	{"f\n(g)", true, "ambiguity resolved as call"},
	{"('x'):rep(2)", true, "method on parenthesised literal"},
	{"'x':rep(2)", false, "string literal is not a prefixexp"},
	{"{}.x = 1", false, "table constructor is not a prefixexp"},
	{"a.b.c:d(1).e[f](g):h{}.i = 1", true, "suffix chain assignment"},
	{"a = {1, 2; 3, [4]=5, x=6,}", true, "field separators"},
	{"a = {,}", false, "empty field"},
	{"a = {1,,2}", false, "double separator"},
	{"a = {[1]}", false, "bracket field needs ="},
	{"a = {x=}", false, "missing value"},
	{"if a then elseif b then else end", true, "if chain"},
	{"if a then else elseif b then end", false, "elseif after else"},
	{"if a end", false, "missing then"},
	{"while a end", false, "missing do"},
	{"repeat until", false, "missing exp"},
	{"repeat local z = 1 until z", true, "until sees body locals"},
	{"for i = 1 do end", false, "numeric for needs two exps"},
	{"for i = 1, 2, 3, 4 do end", false, "numeric for takes at most three"},
	{"for i, j = 1, 2 do end", false, "numeric for takes one name"},
	{"for a, b, c in x, y, z do end", true, "generic for"},
	{"for in x do end", false, "namelist needed"},
	{"function a.b.c:d() end", true, "funcname"},
	{"function a:b.c() end", false, "':' must be last in funcname"},
	{"function a.b:c:d() end", false, "one method part"},
	{"function () end", false, "function statement needs a name"},
	{"local function f(a, b, ...) return ... end", true, "parlist"},
	{"local function f(..., a) end", false, "vararg must be last"},
	{"local function f(a,) end", false, "trailing comma in parlist"},
	{"local a, b, c = 1", true, "namelist"},
	{"local a, = 1", false, "trailing comma"},
	{"local = 1", false, "missing name"},
	{"a = = 1", false, "double ="},
	{"a = 1 +", false, "missing operand"},
	{"a = (1", false, "unbalanced paren"},
	{"a = 1)", false, "unbalanced paren"},
	{"a = }", false, "stray brace"},
	{"end", false, "stray end"},
	{"do end end", false, "stray end"},
	{"do", false, "unterminated do"},
	{"a", false, "expression is not a statement"},
	{"a.b", false, "expression is not a statement"},
	{"1", false, "expression is not a statement"},
	{"a;b=1;;;", false, "a is not a statement"},
	{";;; a = 1 ; ;", true, "empty statements"},
	{"return", true, "empty return"},
	{"return;", true, "return with semicolon"},
	{"return 1, 2;", true, "return list"},
	{"return 1;;", false, "only one semicolon after return"},
	{"x = a and b or c == d ~= e < f <= g > h >= i .. j + k - l * m / n % o ^ p", true, "precedence ladder"},
	{"x = a b", false, "two expressions"},
	{"x = nil == nil", true, "nil compare"},
	{"local t <const> <close> = 1", false, "one attrib per name"},
	{"a = \"\\u{80000000}\"", false, "\\u too large"},
	{"a = \"tab\\\tx\"", false, "backslash-tab is not an escape"},
	{"", true, "empty chunk"},
	{"\n\n  \t\n", true, "whitespace only"},
	{"-- just a comment", true, "comment only"},
	{"a = 1 b = 2 c = 3", true, "statements need no separators"},
	{"a = f\"x\"\"y\"", true, "string call chain"},
	{"a = #t + -x * ~y", true, "unary operators"},
	{"a = # # t", true, "unary chain"},
	{"a = 1 not 2", false, "not is unary"},
	{"a, b.c, d[1] = 1, 2, 3", true, "varlist"},
	{"a, (b) = 1, 2", false, "paren in varlist"},
	{"goto", false, "goto needs a name"},
	{"break", true, "break (semantic-only when outside loop)"},
	{"local x = ...", true, "vararg in main chunk"},
}

func c03Mutate(r *Rng, toks []string) ([]string, string) {
	// positions of real tokens
	var idx []int
	for i, t := range toks {
		if t != NL {
			idx = append(idx, i)
		}
	}
	if len(idx) == 0 {
		return append([]string{"end"}, toks...), "insert"
	}
	out := append([]string(nil), toks...)
	k := idx[r.Intn(len(idx))]
	switch r.Intn(5) {
	case 0:
		out = append(out[:k], out[k+1:]...)
		return out, "delete"
	case 1:
		out = append(out[:k+1], append([]string{toks[k]}, out[k+1:]...)...)
		return out, "duplicate"
	case 2:
		j := r.Intn(len(idx))
		k2 := idx[j]
		if j+1 < len(idx) {
			k2 = idx[j+1]
			k = idx[j]
		}
		out[k], out[k2] = out[k2], out[k]
		return out, "swap"
	case 3:
		out[k] = r.Pick(c03Keywords)
		return out, "substitute"
	default:
		ins := r.Pick(c03Keywords)
		out = append(out[:k], append([]string{ins}, out[k:]...)...)
		return out, "insert"
	}
}

var reDigits = regexp.MustCompile(`\d+`)
var reQuoted = regexp.MustCompile("'[^']*'|\"[^\"]*\"|`[^`]*`")

func normMsg(m string) string {
	m = diagTypeRe.ReplaceAllString(m, "")
	m = reQuoted.ReplaceAllString(m, "Q")
	m = reDigits.ReplaceAllString(m, "N")
	if len(m) > 80 {
		m = m[:80]
	}
	return m
}

func c03Classify(name, text, origin string) c03Case {
	cs := c03Case{Name: name, Text: text, Origin: origin}
	pr := RParse([]byte(text))
	cs.Valid = pr.Valid()
	cs.Why = pr.Err
	if pr.Lex.DCare {
		cs.DCare = append(cs.DCare, "numeral form outside the statement (imaginary / float with LL / LLU)")
	}
	if cs.Valid {
		br := RBind(pr)
		cs.DCare = append(cs.DCare, br.SemanticOnly()...)
	}
	// "\n\r" as one line break vs two, and NUL bytes, are not settled by the grammar text
	if strings.Contains(text, "\x00") {
		cs.DCare = append(cs.DCare, "NUL byte")
	}
	return cs
}

func runC03(c *Ctx) {
	nValid := c.N(12000, 400000)
	nMut := c.N(24000, 1200000)
	root := NewRng(c.Seed).Fork(3)
	var cases []c03Case
	lineEnds := []string{"\n", "\r\n", "\r"}
	// 1. generated valid programs
	type genned struct {
		toks []string
		tv   Trivia
	}
	var pool []genned
	for i := 0; i < nValid; i++ {
		r := root.Fork(uint64(i))
		cfg := DefaultGenCfg()
		cfg.MaxDepth = r.Range(1, 4)
		cfg.ExpDepth = r.Range(1, 4)
		cfg.Stats = r.Range(1, 6)
		g := NewGen(r, cfg)
		toks := g.Chunk()
		tv := Trivia{LineEnd: lineEnds[r.Intn(3)], Rich: r.Chance(1, 2), Tight: r.Chance(1, 2), Indent: r.Bool()}
		txt := Render(r, toks, tv)
		if r.Chance(1, 40) {
			txt = "#!/usr/bin/env lua" + tv.LineEnd + txt
		}
		cs := c03Classify(fmt.Sprintf("g%06d.lua", i), txt, "generated")
		if !cs.Valid {
			c.Inconclusive(fmt.Sprintf("harness inconsistency: generator output rejected by R-parse (%s): %q", cs.Why, truncate(txt, 300)))
			continue
		}
		cases = append(cases, cs)
		if len(toks) < 400 {
			pool = append(pool, genned{toks, tv})
		}
	}
	// 2. mutants
	for i := 0; i < nMut && len(pool) > 0; i++ {
		r := root.Fork(uint64(1000000 + i))
		gsrc := pool[r.Intn(len(pool))]
		mt, kind := c03Mutate(r, gsrc.toks)
		txt := Render(r, mt, gsrc.tv)
		cases = append(cases, c03Classify(fmt.Sprintf("m%06d.lua", i), txt, "mutant:"+kind))
	}
	// 3. sentinels (each with every line ending where the text has a newline)
	for i, s := range c03Sentinels {
		cs := c03Classify(fmt.Sprintf("s%04d.lua", i), s.src, "sentinel")
		if cs.Valid != s.valid {
			c.Inconclusive(fmt.Sprintf("harness inconsistency: sentinel %q expected valid=%v (%s) but R-parse says %v (%s)", s.src, s.valid, s.why, cs.Valid, cs.Why))
			continue
		}
		cases = append(cases, cs)
	}
	// run in batches
	const batch = 300
	nb := (len(cases) + batch - 1) / batch
	var nValidSeen, nInvalidSeen, nDC int64
	parallel(nb, 14, func(b int) {
		lo, hi := b*batch, (b+1)*batch
		if hi > len(cases) {
			hi = len(cases)
		}
		files := map[string]string{}
		for _, cs := range cases[lo:hi] {
			files[cs.Name] = cs.Text
		}
		ws := c.NewWorkspace(files)
		defer ws.Remove()
		init := allOnInit()
		if b%4 != 0 {
			// syntax check only: the other three quarters of the batches (volume); every 4th batch runs all checks
			for _, k := range checkFlagNames[2:] {
				init[k] = false
			}
		}
		srv, err := StartServer(ServerOpts{Root: ws.Root, Init: init, Tag: fmt.Sprintf("c03b%d", b)})
		if err != nil {
			msg := fmt.Sprintf("server failed on batch %d: %v", b, err)
			if srv != nil {
				msg += "; stderr: " + truncate(srv.StderrHead(500), 500)
				srv.Close()
			}
			c.Inconclusive(msg + " (a crash is C01's business; C03 cannot observe this batch)")
			return
		}
		view := srv.View()
		srv.Close()
		for _, cs := range cases[lo:hi] {
			c.Eval(1)
			has1 := false
			var msg1 string
			for _, d := range view[ws.URI(cs.Name)] {
				if d.Type == 1 {
					has1 = true
					msg1 = d.Message
					break
				}
			}
			if len(cs.DCare) > 0 {
				c.Count("dont_care", 1)
				nDC++
				continue
			}
			c.Distinct(cs.Text)
			if cs.Valid {
				c.Count("valid_checked", 1)
				nValidSeen++
				if has1 {
					c.Report("rejects-valid|"+normMsg(msg1), fmt.Sprintf("valid chunk gets syntax diagnostic %q: %q", msg1, truncate(cs.Text, 300)), cs)
				}
			} else {
				c.Count("invalid_checked", 1)
				nInvalidSeen++
				if !has1 {
					w := reQuoted.ReplaceAllString(cs.Why, "Q")
					w = reDigits.ReplaceAllString(w, "N")
					c.Report("accepts-invalid|"+w, fmt.Sprintf("invalid chunk (%s) has no syntax diagnostic: %q", cs.Why, truncate(cs.Text, 300)), cs)
				}
			}
		}
	})
	// samples
	sort.SliceStable(cases, func(i, j int) bool { return false })
	for i := 0; i < len(cases) && i < 2; i++ {
		c.Sample(map[string]interface{}{"origin": cases[i].Origin, "valid": cases[i].Valid, "text": truncate(cases[i].Text, 400)})
	}
	for _, cs := range cases {
		if strings.HasPrefix(cs.Origin, "mutant") && !cs.Valid {
			c.Sample(map[string]interface{}{"origin": cs.Origin, "valid": false, "why": cs.Why, "text": truncate(cs.Text, 400)})
			break
		}
	}
	c.Set("sentinels", len(c03Sentinels))
	c.Finish("grammar-directed programs (valid by construction, re-checked by R-parse) rendered with random trivia/line endings, their "+
		"single-token mutants (delete/duplicate/swap/substitute/insert) classified by R-parse, and curated sentinels; each file analysed by "+
		"the real server and its type-1 diagnostics compared with R-parse's verdict. distinct_nontrivial = distinct file texts that "+
		"reached the oracle with a definite expectation (don't-care classes excluded)", 500)
}
