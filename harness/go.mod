module verif

go 1.21

require (
	github.com/anishathalye/porcupine v1.3.0
	luahelper-lsp v0.0.0
)

replace luahelper-lsp => /repo/luahelper-lsp
