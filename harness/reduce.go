package main

// vcheck reduce <replay.json>: delta-debugging of a violation witness of a scope-workspace check.
// Lines (statements are rendered one per line) are removed while the reference front end still
// accepts the files and the same violation signature is still reported by the same monitor.

import (
	"encoding/json"
	"fmt"
	"os"
	"sort"
	"strings"
)

var wsChecks = map[string]func(c *Ctx, sw *ScopeWS, tag string){}

func ScopeWSFromFiles(files map[string]string) (*ScopeWS, bool) {
	ws := &ScopeWS{ByRel: map[string]*SFile{}}
	rels := make([]string, 0, len(files))
	for rel := range files {
		rels = append(rels, rel)
	}
	sort.Strings(rels)
	for _, rel := range rels {
		txt := files[rel]
		pr := RParse([]byte(txt))
		if !pr.Valid() {
			return nil, false
		}
		br := RBind(pr)
		if len(br.SemanticOnly()) > 0 {
			return nil, false
		}
		f := &SFile{Rel: rel, Text: txt, Src: []byte(txt), Parse: pr, Bind: br}
		ws.Files = append(ws.Files, f)
		ws.ByRel[rel] = f
	}
	ws.index()
	return ws, true
}

func init() {
	special["reduce"] = func(args []string) int {
		if len(args) < 1 {
			fmt.Println("usage: reduce <replay.json> [signature]")
			return 2
		}
		b, err := os.ReadFile(args[0])
		if err != nil {
			fmt.Println(err)
			return 2
		}
		var rp struct {
			Property  string `json:"property"`
			Signature string `json:"signature"`
			Case      struct {
				Files map[string]string `json:"files"`
			} `json:"case"`
		}
		if err := json.Unmarshal(b, &rp); err != nil {
			fmt.Println(err)
			return 2
		}
		if len(args) > 1 {
			rp.Signature = args[1]
		}
		chk := wsChecks[rp.Property]
		if chk == nil {
			fmt.Println("no workspace check for", rp.Property)
			return 2
		}
		c := NewCtx(rp.Property, "quick")
		defer os.RemoveAll(c.Tmp)
		c.collect = true
		n := 0
		test := func(files map[string]string) bool {
			sw, ok := ScopeWSFromFiles(files)
			if !ok {
				return false
			}
			c.mu.Lock()
			c.collected = nil
			c.mu.Unlock()
			n++
			chk(c, sw, fmt.Sprintf("red%d", n))
			for _, v := range c.collected {
				if v.Sig == rp.Signature {
					return true
				}
			}
			return false
		}
		files := rp.Case.Files
		if !test(files) {
			fmt.Println("the witness does not reproduce signature", rp.Signature)
			var sigs []string
			for _, v := range c.collected {
				sigs = append(sigs, v.Sig)
			}
			fmt.Println("signatures seen:", sigs)
			return 1
		}
		// try emptying whole files first
		for _, rel := range sortedKeys(files) {
			cand := copyMap(files)
			cand[rel] = ""
			if test(cand) {
				files = cand
			}
		}
		// structure-aware passes: delete statements, unwrap blocks, replace expressions by nil
		for pass := 0; pass < 6; pass++ {
			progress := false
			for _, rel := range sortedKeys(files) {
				for {
					spans := reduceCandidates(files[rel])
					did := false
					for _, sp := range spans {
						cand := copyMap(files)
						cand[rel] = files[rel][:sp.a] + sp.repl + files[rel][sp.b:]
						if len(cand[rel]) >= len(files[rel]) {
							continue
						}
						if test(cand) {
							files = cand
							did = true
							progress = true
							break
						}
					}
					if !did {
						break
					}
				}
			}
			if !progress {
				break
			}
		}
		fmt.Printf("reduced witness for %s (%d monitor runs):\n", rp.Signature, n)
		for _, rel := range sortedKeys(files) {
			fmt.Printf("--- %s\n%s\n", rel, files[rel])
		}
		for _, v := range c.collected {
			if v.Sig == rp.Signature {
				fmt.Println("what:", v.What)
				break
			}
		}
		out, _ := json.MarshalIndent(map[string]interface{}{"property": rp.Property, "signature": rp.Signature, "files": files}, "", " ")
		os.WriteFile(strings.TrimSuffix(args[0], ".json")+".reduced.json", out, 0o644)
		return 0
	}
}

func sortedKeys(m map[string]string) []string {
	var ks []string
	for k := range m {
		ks = append(ks, k)
	}
	sort.Strings(ks)
	return ks
}

func copyMap(m map[string]string) map[string]string {
	o := map[string]string{}
	for k, v := range m {
		o[k] = v
	}
	return o
}

type redSpan struct {
	a, b int
	repl string
}

// reduceCandidates lists textual replacements that keep the file syntactically plausible, largest first.
func reduceCandidates(txt string) []redSpan {
	pr := RParse([]byte(txt))
	if !pr.Valid() {
		return nil
	}
	var out []redSpan
	var walkBlock func(b *Node)
	var walkExp func(e *Node)
	span := func(n *Node) (int, int, bool) {
		if n == nil || n.First == nil || n.Last == nil || n.Last.End < n.First.Off {
			return 0, 0, false
		}
		return n.First.Off, n.Last.End, true
	}
	blockText := func(b *Node) (string, bool) {
		if b == nil || len(b.List) == 0 {
			return "", true
		}
		a, _, ok1 := span(b.List[0])
		_, e, ok2 := span(b.List[len(b.List)-1])
		if !ok1 || !ok2 {
			return "", false
		}
		return txt[a:e], true
	}
	walkExp = func(e *Node) {
		if e == nil {
			return
		}
		if a, b, ok := span(e); ok && e.K != ENil && b-a > 3 {
			out = append(out, redSpan{a, b, "nil"})
		}
		if e.K == EFunction {
			walkBlock(e.Fn.Body)
			return
		}
		walkExp(e.A)
		walkExp(e.B)
		walkExp(e.C)
		for _, x := range e.List {
			walkExp(x)
		}
	}
	walkBlock = func(bl *Node) {
		if bl == nil {
			return
		}
		for _, s := range bl.List {
			a, b, ok := span(s)
			if !ok {
				continue
			}
			out = append(out, redSpan{a, b, ""})
			var bodies []*Node
			switch s.K {
			case SDo, SWhile, SRepeat, SForNum, SForIn:
				bodies = []*Node{s.Body}
			case SIf:
				bodies = append(append([]*Node{}, s.Blocks...), s.Body)
			case SFunction, SLocalFunction:
				bodies = []*Node{s.Fn.Body}
			}
			for _, bd := range bodies {
				if bd == nil {
					continue
				}
				if t, ok := blockText(bd); ok && (len(bd.List) == 0 || bd.List[len(bd.List)-1].K != SReturn) {
					out = append(out, redSpan{a, b, t})
				}
				walkBlock(bd)
			}
			walkExp(s.A)
			walkExp(s.B)
			walkExp(s.C)
			for _, x := range s.List {
				walkExp(x)
			}
			for _, x := range s.List2 {
				walkExp(x)
			}
		}
	}
	walkBlock(pr.Chunk)
	sort.SliceStable(out, func(i, j int) bool { return (out[i].b-out[i].a)-len(out[i].repl) > (out[j].b-out[j].a)-len(out[j].repl) })
	return out
}
