package main

// vcheck reduce01 <replay.json>: shrink a C01 witness (steps first, then files) while the server
// still ends the same way. A diagnosis aid; the reduced sequence need not be conformant any more.

import (
	"encoding/json"
	"fmt"
	"os"
	"strings"
)

func init() {
	special["reduce01"] = func(args []string) int {
		b, err := os.ReadFile(args[0])
		if err != nil {
			fmt.Println(err)
			return 2
		}
		var rp struct {
			Signature string  `json:"signature"`
			Case      c01Case `json:"case"`
		}
		if err := json.Unmarshal(b, &rp); err != nil {
			fmt.Println(err)
			return 2
		}
		c := NewCtx("C01", "quick")
		defer os.RemoveAll(c.Tmp)
		hangCPUBudget = 20
		n := 0
		sigOf := func(o c01Outcome) string {
			switch o.Kind {
			case "died":
				return "crash|" + o.Crash.Sig()
			case "hang", "blocked":
				return o.Kind
			}
			return "ok"
		}
		want := rp.Signature
		if strings.HasPrefix(want, "hang") {
			want = "hang"
		}
		last := ""
		test := func(cs *c01Case) bool {
			for try := 0; try < 3; try++ {
				n++
				o := c01Run(c, cs, fmt.Sprintf("r%d", n))
				last = sigOf(o)
				if last == want {
					return true
				}
			}
			return false
		}
		cs := rp.Case
		if !test(&cs) {
			fmt.Println("does not reproduce; last outcome:", last)
			return 1
		}
		steps := cs.Steps
		for size := len(steps) / 2; size >= 1; size /= 2 {
			for start := 0; start+size <= len(steps); {
				cand := append(append([]c01Step{}, steps[:start]...), steps[start+size:]...)
				c2 := cs
				c2.Steps = cand
				if test(&c2) {
					steps = cand
				} else {
					start += size
				}
			}
		}
		cs.Steps = steps
		for _, rel := range sortedKeys(cs.Files) {
			c2 := cs
			c2.Files = copyMap(cs.Files)
			delete(c2.Files, rel)
			if test(&c2) {
				cs = c2
				continue
			}
			// line-wise shrink
			lines := strings.Split(cs.Files[rel], "\n")
			for size := len(lines) / 2; size >= 1; size /= 2 {
				for start := 0; start+size <= len(lines); {
					cand := append(append([]string{}, lines[:start]...), lines[start+size:]...)
					c3 := cs
					c3.Files = copyMap(cs.Files)
					c3.Files[rel] = strings.Join(cand, "\n")
					if test(&c3) {
						lines = cand
						cs = c3
					} else {
						start += size
					}
				}
			}
		}
		fmt.Printf("reduced (%d runs) signature %s\n", n, want)
		for _, rel := range sortedKeys(cs.Files) {
			fmt.Printf("--- %s\n%s\n", rel, cs.Files[rel])
		}
		if cs.Init != nil {
			ib, _ := json.Marshal(cs.Init)
			fmt.Println("init:", string(ib))
		}
		if cs.RawInit != nil {
			fmt.Println("raw init:", string(cs.RawInit))
		}
		for _, st := range cs.Steps {
			pb, _ := json.Marshal(st.Params)
			fmt.Printf("step %s %s\n", st.Method, truncate(string(pb), 400))
		}
		out, _ := json.MarshalIndent(map[string]interface{}{"signature": rp.Signature, "case": cs}, "", " ")
		os.WriteFile(strings.TrimSuffix(args[0], ".json")+".reduced.json", out, 0o644)
		return 0
	}
}
