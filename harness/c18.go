package main

// C18 — module paths resolve as documented, consistently across features.
// Monitor: type-6 diagnostics, definition and hover on the module string vs the reference resolver
// R-mod over the harness's own directory tree, before and after create/delete events.

import (
	"fmt"
	"path/filepath"
	"sort"
	"strings"
)

type c18Req struct {
	Kind   string // require / require-nopar / dofile
	Module string // the string as written
	Line   int
	Col    int    // a column inside the string
	Class  string // generator's label (exact, suffix, init, missing, near-miss, so, ...)
	// a member read through the variable that holds the module (print(m.id)): its definition lies in the file the analysis
	// loaded for the module string. MLine < 0: none
	MLine, MCol int
}

type c18Tree struct {
	Files map[string]string
	Reqs  []c18Req
	Main  string
}

func c18GenTree(r *Rng) c18Tree {
	// (two directories are named like modules: a path can contain a module's name before its last component)
	// (and directory / file names with a hyphen, which module strings may contain)
	dirs := []string{"", "lib", "lib/net", "app", "app/ui", "vendor/x", "util/skins", "core", "third-party", "my-conf/v1"}
	names := []string{"util", "core", "socket", "view", "conf", "leaf", "json-x"}
	files := map[string]string{}
	n := r.Range(3, 10)
	for i := 0; i < n; i++ {
		d := dirs[r.Intn(len(dirs))]
		nm := names[r.Intn(len(names))]
		rel := nm + ".lua"
		if r.Chance(1, 5) {
			rel = nm + "/init.lua"
		}
		if d != "" {
			rel = d + "/" + rel
		}
		files[rel] = fmt.Sprintf("local M = { id = %d }\nreturn M\n", i)
	}
	if r.Chance(1, 3) {
		files["native/fast.so"] = "\x7fELF"
	}
	if r.Chance(1, 4) {
		files["lib/xcore.lua"] = "return {}\n" // for the component-boundary near miss ("core" vs "xcore")
	}
	t := c18Tree{Files: files, Main: "main.lua"}
	// a third of the trees keep the requiring file in a directory of its own, next to one of two packages (name/init.lua) of
	// the same name that lie equally deep
	pkgReq := ""
	if r.Fork(0x706b67).Chance(1, 3) {
		t.Main = "zapp/main.lua"
		pkgReq = fmt.Sprintf("pkgq%d", r.Fork(0x706b68).Intn(10))
		files["alib/"+pkgReq+"/init.lua"] = "local M = { id = 9001 }\nreturn M\n"
		files["zapp/"+pkgReq+"/init.lua"] = "local M = { id = 9002 }\nreturn M\n"
	}
	// module strings
	var lines []string
	add := func(kind, mod, class string) {
		var text string
		switch kind {
		case "require":
			text = fmt.Sprintf("local m%d = require(\"%s\")", len(lines), mod)
		case "require-nopar":
			text = fmt.Sprintf("local m%d = require \"%s\"", len(lines), mod)
		case "dofile":
			text = fmt.Sprintf("dofile(\"%s\")", mod)
		}
		col := strings.Index(text, "\""+mod) + 1 + len(mod)/2
		t.Reqs = append(t.Reqs, c18Req{Kind: kind, Module: mod, Line: len(lines), Col: col, Class: class, MLine: -1})
		lines = append(lines, text)
	}
	var rels []string
	for rel := range files {
		if strings.HasSuffix(rel, ".lua") {
			rels = append(rels, rel)
		}
	}
	sort.Strings(rels)
	for _, rel := range rels {
		if r.Chance(1, 2) {
			continue
		}
		p := strings.TrimSuffix(rel, ".lua")
		isInit := strings.HasSuffix(p, "/init") || p == "init"
		if isInit {
			p = strings.TrimSuffix(strings.TrimSuffix(p, "init"), "/")
			if p == "" {
				continue
			}
		}
		parts := strings.Split(p, "/")
		// full path, dotted or slashed
		kind := []string{"require", "require-nopar"}[r.Intn(2)]
		cls := "full-path"
		if isInit {
			cls = "init-module"
		}
		if r.Bool() {
			add(kind, strings.Join(parts, "."), cls+"-dotted")
		} else {
			add(kind, strings.Join(parts, "/"), cls+"-slashed")
		}
		// a proper suffix at a component boundary
		if len(parts) > 1 && r.Bool() {
			k := r.Range(1, len(parts)-1)
			add("require", strings.Join(parts[k:], "."), "suffix-"+cls)
		}
		if !isInit && r.Chance(1, 3) {
			add("dofile", rel, "dofile-full")
		}
	}
	if pkgReq != "" {
		add("require", pkgReq, "init-module-twice-at-the-same-depth")
	}
	add("require", "nowhere.mod", "missing")
	add("dofile", "nothing/here.lua", "missing-dofile")
	add("require", "ore", "near-miss-partial-basename") // "core" exists perhaps; "ore" must not match
	add("require", "ib.util", "near-miss-partial-directory")
	if _, ok := files["native/fast.so"]; ok {
		add("require", "native.fast", "native-so")
	}
	for i := range t.Reqs {
		if t.Reqs[i].Kind == "dofile" {
			continue
		}
		text := fmt.Sprintf("print(m%d.id)", t.Reqs[i].Line)
		t.Reqs[i].MLine = len(lines)
		t.Reqs[i].MCol = strings.Index(text, ".id") + 2
		lines = append(lines, text)
	}
	// half of the main files have lines with two or three module strings (a multiple assignment of requires, two statements on
	// one line): every string of the line is a module string of its own
	if rp := r.Fork(0x70616972); rp.Bool() {
		var reqs []c18Req
		for _, q := range t.Reqs {
			if q.Kind == "require" || q.Kind == "require-nopar" {
				reqs = append(reqs, q)
			}
		}
		for k := rp.Range(1, 2); k > 0 && len(reqs) >= 2; k-- {
			n := rp.Range(2, 3)
			var vars, calls []string
			var picked []c18Req
			for j := 0; j < n; j++ {
				q := reqs[rp.Intn(len(reqs))]
				picked = append(picked, q)
				vars = append(vars, fmt.Sprintf("mp%d_%d", len(lines), j))
				if q.Kind == "require" {
					calls = append(calls, fmt.Sprintf("require(\"%s\")", q.Module))
				} else {
					calls = append(calls, fmt.Sprintf("require \"%s\"", q.Module))
				}
			}
			text := "local " + strings.Join(vars, ", ") + " = " + strings.Join(calls, ", ")
			if rp.Chance(1, 3) {
				text = "local " + vars[0] + " = " + calls[0]
				for j := 1; j < n; j++ {
					text += "; local " + vars[j] + " = " + calls[j]
				}
			}
			from := 0
			for j, q := range picked {
				at := strings.Index(text[from:], "\""+q.Module+"\"") + from
				from = at + len(q.Module) + 2
				pos := "first"
				if j > 0 {
					pos = "later"
				}
				t.Reqs = append(t.Reqs, c18Req{Kind: q.Kind, Module: q.Module, Line: len(lines), Col: at + 1 + len(q.Module)/2, Class: q.Class + "|" + pos + "-of-several-on-its-line", MLine: -1})
			}
			lines = append(lines, text)
		}
	}
	// a third of the main files end with a module string on their last line and no line break after it
	if len(rels) > 0 && r.Fork(0x656f66).Chance(1, 3) {
		rel := rels[r.Fork(0x656f67).Intn(len(rels))]
		p := strings.TrimSuffix(rel, ".lua")
		if !strings.HasSuffix(p, "/init") && p != "init" {
			if r.Fork(0x656f68).Bool() {
				add("dofile", rel, "dofile-full-at-end-of-file")
			} else {
				add("require-nopar", strings.ReplaceAll(p, "/", "."), "full-path-dotted-at-end-of-file")
			}
			files[t.Main] = strings.Join(lines, "\n")
			t.Files = files
			return t
		}
	}
	lines = append(lines, "print(1)")
	files[t.Main] = strings.Join(lines, "\n") + "\n"
	t.Files = files
	return t
}

// rmodCandidates implements the documented mapping on a set of workspace-relative files.
func rmodCandidates(files map[string]string, req c18Req) (cands []string, so bool) {
	m := req.Module
	if req.Kind == "dofile" {
		m = strings.TrimSuffix(m, ".lua")
	} else {
		m = strings.ReplaceAll(m, ".", "/")
	}
	m = strings.Trim(m, "/")
	match := func(suffix string) []string {
		var out []string
		for rel := range files {
			if rel == suffix || strings.HasSuffix(rel, "/"+suffix) {
				out = append(out, rel)
			}
		}
		sort.Strings(out)
		return out
	}
	cands = match(m + ".lua")
	if len(cands) == 0 && req.Kind != "dofile" {
		cands = match(m + "/init.lua")
	}
	if len(match(m+".so")) > 0 {
		so = true
	}
	return
}

func runC18(c *Ctx) {
	nTrees := c.N(1000, 60000)
	root := NewRng(c.Seed).Fork(18)
	parallel(nTrees, 14, func(ti int) {
		r := root.Fork(uint64(ti))
		t := c18GenTree(r)
		c.Eval(1)
		c18Check(c, t, r, fmt.Sprintf("c18t%d", ti), false)
		if ti < 2 {
			c.Sample(map[string]interface{}{"files": sortedKeys(t.Files), "main": t.Files[t.Main]})
		}
	})
	// labelled extra case: a workspace directory whose path contains a dot
	{
		r := root.Fork(999999)
		t := c18GenTree(r)
		c.Eval(1)
		c18Check(c, t, r, "c18dot", true)
	}
	// workspaces of two folders: modules come and go in the second folder
	nTwo := c.N(60, 1500)
	parallel(nTwo, 14, func(i int) {
		c.Eval(1)
		c18SecondFolder(c, root.Fork(uint64(7000000+i)), fmt.Sprintf("c18two%d", i))
	})
	c.Finish("directory trees of 3-10 modules in nested directories (duplicate base names, name.lua vs name/init.lua, a native .so, near-miss names) and a main file "+
		"requiring them with dotted / slashed / suffix-only module strings, require with and without parentheses, dofile with suffix, missing modules and near-misses "+
		"that only match across a path-component boundary; type-6 diagnostics, go-to-definition and hover on every module string are compared with the documented "+
		"mapping (R-mod), then one required file is deleted or created (watched-files event) and everything is compared again; workspaces of two folders in which uniquely named modules are created and deleted in the second folder (three events each). distinct_nontrivial = distinct "+
		"(tree, module string, phase) checked", 200)
}

func c18Check(c *Ctx, t c18Tree, r *Rng, tag string, dotted bool) {
	ws := c.NewWorkspace(nil)
	if dotted {
		// re-root the workspace under a directory with a dot in its name
		ws.Root = ws.Root + "/proj.v2/src"
	}
	for rel, txt := range t.Files {
		ws.Write(rel, txt)
	}
	defer func() {
		if dotted {
			ws.Root = strings.TrimSuffix(ws.Root, "/proj.v2/src")
		}
		ws.Remove()
	}()
	srv, err := StartServer(ServerOpts{Root: ws.Root, Tag: tag, WorkDir: c.Tmp})
	if err != nil {
		c.Inconclusive("server failed (C01's business): " + err.Error())
		if srv != nil {
			srv.Close()
		}
		return
	}
	defer srv.Close()
	mainURI := ws.URI(t.Main)
	srv.DidOpen(mainURI, t.Files[t.Main])
	if srv.Fence() != nil {
		c.Inconclusive("server died on open")
		return
	}
	layout := "plain"
	if dotted {
		layout = "dotted-workspace-path"
	}
	verify := func(phase string) bool {
		view := srv.View()[mainURI]
		for _, rq := range t.Reqs {
			cands, so := rmodCandidates(ws.Files, rq)
			c.Count("module_strings_checked", 1)
			c.Distinct(fmt.Sprint(sortedKeys(ws.Files), rq, phase))
			witness := map[string]interface{}{"files": sortedKeys(ws.Files), "main": t.Files[t.Main], "request": rq, "candidates": cands, "phase": phase, "layout": layout}
			has6 := false
			for _, d := range view {
				if d.Type == 6 && d.Range.Start.Line == rq.Line {
					// (a line can hold several module strings: the diagnostic that covers this one, or the only one of the line)
					if !strings.Contains(rq.Class, "-of-several-on-its-line") || (d.Range.Start.Character <= rq.Col && rq.Col <= d.Range.End.Character) {
						has6 = true
					}
				}
			}
			want6 := len(cands) == 0 && !so
			if has6 != want6 {
				kind := "missing-file-not-reported"
				if has6 {
					kind = "existing-file-reported-missing"
				}
				c.Report(fmt.Sprintf("type6|%s|%s|%s|%s", kind, rq.Class, phase, layout),
					fmt.Sprintf("%s(%q): candidates %v, .so=%v, but type-6 diagnostic present=%v (%s)", rq.Kind, rq.Module, cands, so, has6, phase), witness)
			}
			locs, _, err := srv.Definition(mainURI, rq.Line, rq.Col)
			if err != nil {
				c.Inconclusive("server stopped answering (C01's business)")
				return false
			}
			hv, _, err := srv.Hover(mainURI, rq.Line, rq.Col)
			if err != nil {
				c.Inconclusive("server stopped answering (C01's business)")
				return false
			}
			defFile := ""
			if len(locs) > 0 {
				defFile = ws.Rel(locs[0].URI)
			}
			inCands := func(f string) bool {
				for _, cd := range cands {
					if cd == f {
						return true
					}
				}
				return false
			}
			switch {
			case len(cands) == 0:
				if len(locs) > 0 && !so {
					c.Report(fmt.Sprintf("definition|resolves-nonexistent-module|%s|%s|%s", rq.Class, phase, layout),
						fmt.Sprintf("%s(%q) has no candidate file but definition leads to %s", rq.Kind, rq.Module, defFile), witness)
				}
			case len(locs) == 0:
				c.Report(fmt.Sprintf("definition|no-answer-for-existing-module|%s|%s|%s", rq.Class, phase, layout),
					fmt.Sprintf("%s(%q): candidates %v but definition returns nothing", rq.Kind, rq.Module, cands), witness)
			case !inCands(defFile):
				c.Report(fmt.Sprintf("definition|wrong-file|%s|%s|%s", rq.Class, phase, layout),
					fmt.Sprintf("%s(%q): definition leads to %s, candidates are %v", rq.Kind, rq.Module, defFile, cands), witness)
			}
			if len(cands) > 0 && len(locs) > 0 && rq.MLine >= 0 {
				// the file the analysis loaded (where the module's member is defined) is the file the string leads to
				ml, _, err := srv.Definition(mainURI, rq.MLine, rq.MCol)
				if err != nil {
					c.Inconclusive("server stopped answering (C01's business)")
					return false
				}
				if len(ml) > 0 && strings.HasSuffix(ws.Rel(ml[0].URI), ".lua") && ws.Rel(ml[0].URI) != t.Main {
					c.Count("loaded_file_vs_definition_compared", 1)
					if lf := ws.Rel(ml[0].URI); lf != defFile {
						c.Report(fmt.Sprintf("definition|differs-from-loaded-file|%s|%s|%s", rq.Class, phase, layout),
							fmt.Sprintf("%s(%q): definition on the string leads to %s, but the member read through the module variable is defined in %s (candidates %v)", rq.Kind, rq.Module, defFile, lf, cands), witness)
					}
				}
			}
			if len(cands) > 0 && len(locs) > 0 {
				// hover must name (a suffix of) the file definition leads to
				hp := ""
				if hv != nil {
					hp = strings.TrimSpace(strings.TrimPrefix(hv.Contents.Value, "lua file :"))
				}
				c.Count("hover_vs_definition_compared", 1)
				if hp == "" || !(defFile == hp || strings.HasSuffix(defFile, "/"+hp)) {
					c.Report(fmt.Sprintf("hover|disagrees-with-definition|%s|%s|%s", rq.Class, phase, layout),
						fmt.Sprintf("%s(%q): definition leads to %s but hover shows %q", rq.Kind, rq.Module, defFile, hp), witness)
				}
			}
		}
		return true
	}
	if !verify("initial") {
		return
	}
	// one create / delete event on a module file, then verify again
	var luaRels []string
	for rel := range ws.Files {
		if strings.HasSuffix(rel, ".lua") && rel != t.Main {
			luaRels = append(luaRels, rel)
		}
	}
	sort.Strings(luaRels)
	phase := ""
	if len(luaRels) > 0 && r.Bool() {
		victim := luaRels[r.Intn(len(luaRels))]
		ws.Delete(victim)
		srv.Notify("workspace/didChangeWatchedFiles", map[string]interface{}{"changes": []interface{}{map[string]interface{}{"uri": ws.URI(victim), "type": 3}}})
		phase = "after-delete"
	} else {
		ws.Write("nowhere/mod.lua", "return {}\n")
		srv.Notify("workspace/didChangeWatchedFiles", map[string]interface{}{"changes": []interface{}{map[string]interface{}{"uri": ws.URI("nowhere/mod.lua"), "type": 1}}})
		phase = "after-create"
	}
	if srv.Fence() != nil {
		c.Inconclusive("server died on file event (C01's business)")
		return
	}
	c.Count("file_events", 1)
	verify(phase)
}

// c18SecondFolder: a workspace of two folders; the main file lies in the first, the modules it requires (unique base names)
// come and go in the second. After every create / delete event the type-6 diagnostic is present exactly for the modules that
// do not exist, and definition on the module string leads to the file exactly when it exists.
func c18SecondFolder(c *Ctx, r *Rng, tag string) {
	type mod struct {
		name, rel string // module string, file relative to the scratch root
		line      int
		exists    bool
	}
	mods := []*mod{{name: "xmodq", rel: "rootB/xmodq.lua"}, {name: "ymodq", rel: "rootB/sub/ymodq.lua"}, {name: "zmodq", rel: "rootA/lib/zmodq.lua"}}
	var main strings.Builder
	for i, m := range mods {
		m.line = i
		m.exists = r.Bool()
		fmt.Fprintf(&main, "local m%d = require(\"%s\")\n", i, m.name)
	}
	main.WriteString("print(m0, m1, m2)\n")
	files := map[string]string{"rootA/main.lua": main.String(), "rootB/other.lua": "local o = 1\nprint(o)\n"}
	for _, m := range mods {
		if m.exists {
			files[m.rel] = "return { v = 1 }\n"
		}
	}
	ws := c.NewWorkspace(files)
	defer ws.Remove()
	srv, err := StartServer(ServerOpts{Root: filepath.Join(ws.Root, "rootA"), Folders: []string{filepath.Join(ws.Root, "rootA"), filepath.Join(ws.Root, "rootB")}, Tag: tag, WorkDir: c.Tmp})
	if err != nil {
		c.Inconclusive("server failed (C01's business): " + err.Error())
		if srv != nil {
			srv.Close()
		}
		return
	}
	defer srv.Close()
	mainURI := ws.URI("rootA/main.lua")
	srv.DidOpen(mainURI, files["rootA/main.lua"])
	if srv.Fence() != nil {
		c.Inconclusive("server died on open")
		return
	}
	var history []string
	verify := func(phase string) bool {
		view := srv.View()[mainURI]
		for _, m := range mods {
			c.Count("module_strings_checked", 1)
			c.Count("second_folder_module_strings_checked", 1)
			folder := "second-folder"
			if strings.HasPrefix(m.rel, "rootA/") {
				folder = "first-folder"
			}
			c.Distinct(fmt.Sprint("second-folder", m.name, m.exists, history))
			witness := map[string]interface{}{"files": sortedKeys(ws.Files), "main": files["rootA/main.lua"], "module": m.name, "module_file": m.rel, "exists": m.exists, "events": history, "layout": "two-workspace-folders"}
			has6 := false
			for _, d := range view {
				if d.Type == 6 && d.Range.Start.Line == m.line {
					has6 = true
				}
			}
			if has6 == m.exists {
				kind := "missing-file-not-reported"
				if has6 {
					kind = "existing-file-reported-missing"
				}
				c.Report(fmt.Sprintf("type6|%s|module-in-%s|%s|two-workspace-folders", kind, folder, phase),
					fmt.Sprintf("require(%q): %s exists=%v but type-6 diagnostic present=%v after %v", m.name, m.rel, m.exists, has6, history), witness)
			}
			locs, _, err := srv.Definition(mainURI, m.line, len("local m0 = require(\"")+1)
			if err != nil {
				c.Inconclusive("server stopped answering (C01's business)")
				return false
			}
			got := ""
			if len(locs) > 0 {
				got = ws.Rel(locs[0].URI)
			}
			want := ""
			if m.exists {
				want = m.rel
			}
			if got != want {
				c.Report(fmt.Sprintf("definition|module-in-%s|%s|two-workspace-folders", folder, phase),
					fmt.Sprintf("require(%q): definition leads to %q, expected %q after %v", m.name, got, want, history), witness)
			}
		}
		return true
	}
	if !verify("initial") {
		return
	}
	for round := 0; round < 3; round++ {
		m := mods[r.Intn(len(mods))]
		typ := 1
		if m.exists {
			ws.Delete(m.rel)
			typ = 3
			history = append(history, "delete "+m.rel)
		} else {
			ws.Write(m.rel, "return { v = 1 }\n")
			history = append(history, "create "+m.rel)
		}
		m.exists = !m.exists
		srv.Notify("workspace/didChangeWatchedFiles", map[string]interface{}{"changes": []interface{}{map[string]interface{}{"uri": ws.URI(m.rel), "type": typ}}})
		if srv.Fence() != nil {
			c.Inconclusive("server died on file event (C01's business)")
			return
		}
		c.Count("file_events", 1)
		phase := "after-create"
		if typ == 3 {
			phase = "after-delete"
		}
		if !verify(phase) {
			return
		}
	}
}
