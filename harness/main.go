package main

import (
	"fmt"
	"os"
)

var checks = map[string]func(*Ctx){
	"C01": runC01,
	"C02": runC02,
	"C03": runC03,
	"C04": runC04,
	"C05": runC05,
	"C06": runC06,
	"C07": runC07,
	"C08": runC08,
	"C09": runC09,
	"C10": runC10,
	"C11": runC11,
	"C12": runC12,
	"C13": runC13,
	"C14": runC14,
	"C15": runC15,
	"C16": runC16,
	"C17": runC17,
	"C18": runC18,
	"C19": runC19,
	"C20": runC20,
}

func main() {
	if len(os.Args) < 2 {
		fmt.Println("usage: vcheck <ID> [quick|thorough] | worker ... | selftest")
		os.Exit(2)
	}
	id := os.Args[1]
	tier := "quick"
	if len(os.Args) > 2 {
		tier = os.Args[2]
	}
	if f, ok := special[id]; ok {
		os.Exit(f(os.Args[2:]))
	}
	f, ok := checks[id]
	if !ok {
		fmt.Println("unknown check", id)
		os.Exit(2)
	}
	if tier != "quick" && tier != "thorough" {
		tier = "quick"
	}
	c := NewCtx(id, tier)
	c.ClearReplays()
	f(c)
	// every check ends in c.Finish, which exits
	fmt.Println("check returned without verdict")
	os.Exit(2)
}

// special subcommands (worker processes, self tests, replay)
var special = map[string]func(args []string) int{}
