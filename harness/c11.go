package main

// C11 — rename rewrites exactly the variable's occurrences and preserves meaning.
// Monitor: WorkspaceEdit of textDocument/rename, checked against the client's own text (disjoint,
// each edit covers the old name), against R-bind's occurrence class, and by applying it: the
// reference front end re-parses the edited files and compares binding structure; a fresh server on
// the edited workspace must report the same diagnostics up to the name.

import (
	"fmt"
	"sort"
	"strings"
	"time"
)

func init() { wsChecks["C11"] = func(c *Ctx, sw *ScopeWS, tag string) { checkC11WS(c, sw, tag, NewRng(1)) } }

func runC11(c *Ctx) {
	nWS := c.N(250, 6000)
	root := NewRng(c.Seed).Fork(11)
	parallel(nWS, 14, func(i int) {
		r := root.Fork(uint64(i))
		sw := GenScopeWS(r, ScopeCfg{JoinPct: -1, GluePct: -1, Zoo: r.Fork(0x7a6f6f).Chance(1, 4)})
		if len(sw.Files) >= 2 && r.Fork(0x726f6f74).Chance(1, 8) {
			sw.Reroot([]string{"rootA", "rootB"}) // the files are spread over two workspace folders next to each other
			c.Count("multi_root_workspaces", 1)
		}
		c.Eval(1)
		checkC11WS(c, sw, fmt.Sprintf("c11w%d", i), r.Fork(99))
		if i < 1 {
			c.Sample(map[string]interface{}{"files": sw.FileMap()})
		}
	})
	// wide workspaces: more files than the machine has processors (the references worker pool hands files out in rounds), short
	// files, so that every global occurs in many of them
	nWide := c.N(6, 120)
	parallel(nWide, 6, func(i int) {
		r := root.Fork(uint64(8000000 + i))
		sw := GenScopeWS(r, ScopeCfg{JoinPct: -1, GluePct: -1, NFiles: r.Range(20, 44), Depth: 1, Stats: r.Range(1, 3)})
		c.Eval(1)
		c.Count("wide_workspaces", 1)
		checkC11WS(c, sw, fmt.Sprintf("c11wide%d", i), r.Fork(99))
	})
	nDirty := c.N(60, 1500)
	parallel(nDirty, 14, func(i int) {
		r := root.Fork(uint64(4000000 + i))
		sw := GenScopeWS(r, ScopeCfg{JoinPct: -1})
		c.Eval(1)
		c.Count("workspaces_with_an_unsaved_edit", 1)
		checkC11WSDirty(c, sw, fmt.Sprintf("c11d%d", i), r.Fork(99), sw.Files[r.Intn(len(sw.Files))].Rel)
	})
	c.Finish("generated workspaces as in C05, among them workspaces of 20-44 short files (a third of them after a client settings notification that switches the references option `include the definition` off), plus workspaces in which the renamed local lives in a document with an unsaved edit that shifts every position; textDocument/rename with a fresh identifier at every renameable occurrence; the returned "+
		"WorkspaceEdit is checked for (1) pairwise disjoint edits, (2) old name under every edit in the client's text, (3) set equality with the "+
		"reference binder's occurrence class, (4) after applying it: re-parse, isomorphic binding graph, and (sampled) equal diagnostics of a fresh "+
		"server up to the name. distinct_nontrivial = distinct (file text, occurrence) renamed with a definite expectation", 300)
}

// applyEdits applies non-overlapping edits to a text (positions per R-text).
func applyEdits(src []byte, edits []TextEdit) ([]byte, bool) {
	type se struct {
		a, b int
		txt  string
	}
	t := &RText{B: src}
	var ses []se
	for _, e := range edits {
		a, ok1 := t.Offset(e.Range.Start)
		b, ok2 := t.Offset(e.Range.End)
		if !ok1 || !ok2 || b < a {
			return nil, false
		}
		ses = append(ses, se{a, b, e.NewText})
	}
	sort.Slice(ses, func(i, j int) bool { return ses[i].a < ses[j].a })
	var out []byte
	pos := 0
	for _, s := range ses {
		if s.a < pos {
			return nil, false
		}
		out = append(out, src[pos:s.a]...)
		out = append(out, s.txt...)
		pos = s.b
	}
	out = append(out, src[pos:]...)
	return out, true
}

// bindShape is a name-insensitive fingerprint of the binding graph: for every variable occurrence in
// token order, the token index of its declaration (or "g:<name>" for free names).
func bindShape(br *BindResult, oldName, newName string) []string {
	var out []string
	occs := append([]*Occ(nil), br.Occs...)
	sort.Slice(occs, func(i, j int) bool { return occs[i].Tok.Off < occs[j].Tok.Off })
	for _, o := range occs {
		if o.Decl != nil {
			if o.Decl.Tok != nil {
				out = append(out, fmt.Sprintf("%d->%d", o.Tok.Idx, o.Decl.Tok.Idx))
			} else {
				out = append(out, fmt.Sprintf("%d->self", o.Tok.Idx))
			}
		} else {
			n := o.Tok.Val
			if n == newName {
				n = oldName
			}
			out = append(out, fmt.Sprintf("%d->g:%s", o.Tok.Idx, n))
		}
	}
	return out
}

func normDiagName(m, newName, oldName string) string {
	return strings.ReplaceAll(m, newName, oldName)
}

func checkC11WS(c *Ctx, sw *ScopeWS, tag string, r *Rng) { checkC11WSDirty(c, sw, tag, r, "") }

// checkC11WSDirty: with dirtyRel != "", that document is opened with a longer saved text and then edited, without saving,
// to the text in sw (see checkC06WSDirty); only file-local bindings of that document are renamed then.
func checkC11WSDirty(c *Ctx, sw *ScopeWS, tag string, r *Rng, dirtyRel string) {
	var ws *Workspace
	var srv *Server
	var err error
	if dirtyRel == "" {
		ws, srv, err = startScopeServer(c, sw, tag)
	} else {
		files := sw.FileMap()
		newText := files[dirtyRel]
		files[dirtyRel] = "local zzPad = 1\nprint(zzPad)\n" + newText
		ws = c.NewWorkspace(files)
		srv, err = StartServer(ServerOpts{Root: ws.Root, Tag: tag})
		if err == nil {
			for rel, txt := range files {
				srv.DidOpen(ws.URI(rel), txt)
			}
			srv.DidChangeFull(ws.URI(dirtyRel), 2, newText)
			err = srv.Fence()
		}
		if err != nil {
			if srv != nil {
				srv.Close()
			}
			ws.Remove()
		}
	}
	if err != nil {
		c.Inconclusive("server failed on a generated workspace (C01's business): " + err.Error())
		return
	}
	defer ws.Remove()
	defer srv.Close()
	// a third of the workspaces run with the find-references option "include the definition" switched off by a client
	// settings notification (explicitly, or by leaving the key out): rename must not depend on it
	switch r.Fork(0x636f6e66).Intn(6) {
	case 0:
		srv.Notify("workspace/didChangeConfiguration", map[string]interface{}{"settings": map[string]interface{}{"luahelper": map[string]interface{}{"base": map[string]interface{}{"ReferenceIncudeDefine": false, "ReferenceMaxNum": 3000}}}})
		srv.Fence()
		c.Count("workspaces_with_reference_include_definition_off", 1)
	case 1:
		srv.Notify("workspace/didChangeConfiguration", map[string]interface{}{"settings": map[string]interface{}{}})
		srv.Fence()
		c.Count("workspaces_with_reference_include_definition_off", 1)
	case 2:
		// the cap on the number of locations find-references shows is a display option of that request; rename edits
		// every occurrence whatever it is set to
		n := 1 + r.Fork(0x6d6178).Intn(3)
		srv.Notify("workspace/didChangeConfiguration", map[string]interface{}{"settings": map[string]interface{}{"luahelper": map[string]interface{}{"base": map[string]interface{}{"ReferenceIncudeDefine": true, "ReferenceMaxNum": n}}}})
		srv.Fence()
		c.Count("workspaces_with_small_reference_max_num", 1)
	}
	var baseView map[string][]Diag
	sampled := false
	for _, f := range sw.Files {
		if dirtyRel != "" && f.Rel != dirtyRel {
			continue
		}
		uri := ws.URI(f.Rel)
		for _, o := range f.Bind.Occs {
			if !queryable(o) {
				continue
			}
			if dirtyRel != "" && o.Decl == nil {
				c.Count("dont_care_global_while_a_buffer_is_unsaved", 1)
				continue
			}
			name := o.Tok.Val
			if o.Decl == nil && (luaBuiltins[name] || len(sw.GlobalDefs[name]) == 0) {
				c.Count("dont_care_builtin_or_undefined", 1)
				continue
			}
			newName := "zzRenamed" + fmt.Sprint(o.Tok.Off)
			p := posAt(f.Src, o.Tok.Off)
			we, rerr, err := srv.Rename(uri, p.Line, p.Character, newName)
			if err != nil {
				srv.WaitDeath(5 * time.Second)
				c.Inconclusive(fmt.Sprintf("server stopped answering (C01's business): %v; witness %s", err, c.CrashWitness(srv, sw.FileMap())))
				return
			}
			c.Count("rename_requests", 1)
			cls := lineFeatures(f.Src, o.Tok) + "|" + occClass(f, o)
			witness := func(extra map[string]interface{}) interface{} {
				m := map[string]interface{}{"files": sw.FileMap(), "file": f.Rel, "position": p, "name": name, "edit": we}
				for k, v := range extra {
					m[k] = v
				}
				return m
			}
			if rerr != nil {
				c.Report("rename-error|"+cls, fmt.Sprintf("rename of %s at %s:%v returned error %s", name, f.Rel, p, rerr.Message), witness(nil))
				continue
			}
			c.Distinct(f.Text + fmt.Sprint(o.Tok.Off))
			var locs []Location
			perFile := map[string][]TextEdit{}
			if we != nil {
				for u, es := range we.Changes {
					for _, e := range es {
						locs = append(locs, Location{URI: u, Range: e.Range})
						perFile[u] = append(perFile[u], e)
					}
				}
			}
			// (1) disjoint and (2) text under each edit is the old name — judged on the client's own text
			clauseFailed := false
			for u, es := range perFile {
				rel := ws.Rel(u)
				sf := sw.ByRel[rel]
				if sf == nil {
					c.Report("rename-edit-outside-workspace", fmt.Sprintf("rename of %s edits %s which is not a workspace file", name, u), witness(nil))
					clauseFailed = true
					continue
				}
				sorted := append([]TextEdit(nil), es...)
				sort.Slice(sorted, func(i, j int) bool {
					a, b := sorted[i].Range.Start, sorted[j].Range.Start
					return a.Line < b.Line || (a.Line == b.Line && a.Character < b.Character)
				})
				for i, e := range sorted {
					c.Count("edits_checked", 1)
					txt, ok := sliceRange(sf.Src, e.Range)
					if !ok {
						c.Report("rename-edit-range-outside-text|"+cls, fmt.Sprintf("rename of %s: edit %v in %s is not inside the text", name, e.Range, rel), witness(nil))
						clauseFailed = true
						continue
					}
					if txt != name {
						what := "other"
						if txt == "self" {
							what = "self-token"
						}
						c.Report(fmt.Sprintf("rename-edit-covers-other-text|%s|query:%s", what, cls),
							fmt.Sprintf("rename of %s at %s:%v: edit %v in %s covers %q, not the old name", name, f.Rel, p, e.Range, rel, truncate(txt, 40)), witness(nil))
						clauseFailed = true
					}
					if i > 0 {
						pe := sorted[i-1].Range.End
						if e.Range.Start.Line < pe.Line || (e.Range.Start.Line == pe.Line && e.Range.Start.Character < pe.Character) {
							c.Report("rename-edits-overlap|"+cls, fmt.Sprintf("rename of %s: edits %v and %v in %s overlap", name, sorted[i-1].Range, e.Range, rel), witness(nil))
							clauseFailed = true
						}
					}
				}
			}
			// (3) set equality with the occurrence class
			exp := expectedRefs(ws, sw, f, o)
			got := locSet(locs)
			missing := setDiff(exp, got)
			extra := setDiff(got, exp)
			if len(missing) > 0 || len(extra) > 0 {
				sig := strings.Replace(refsSignature(ws, sw, f, o, missing, extra, len(got) == 0), "refs-mismatch", "rename-set-mismatch", 1)
				c.Report(sig, fmt.Sprintf("rename of %s at %s:%v: edit set misses %v and adds %v", name, f.Rel, p, relKeys(ws, missing), relKeys(ws, extra)),
					witness(map[string]interface{}{"missing": relKeys(ws, missing), "extra": relKeys(ws, extra)}))
				continue
			}
			if clauseFailed {
				continue
			}
			c.Count("exact_edit_sets", 1)
			// (4) apply and compare binding structure
			newFiles := sw.FileMap()
			okApply := true
			for u, es := range perFile {
				rel := ws.Rel(u)
				nb, ok := applyEdits(sw.ByRel[rel].Src, es)
				if !ok {
					okApply = false
					break
				}
				newFiles[rel] = string(nb)
			}
			if !okApply {
				c.Report("rename-edit-not-applicable|"+cls, fmt.Sprintf("rename of %s: the edit cannot be applied", name), witness(nil))
				continue
			}
			nsw, ok := ScopeWSFromFiles(newFiles)
			if !ok {
				c.Report("rename-breaks-program|"+cls, fmt.Sprintf("rename of %s to %s yields a program the reference front end rejects", name, newName), witness(map[string]interface{}{"after": newFiles}))
				continue
			}
			same := true
			for _, of := range sw.Files {
				a := bindShape(of.Bind, name, newName)
				b := bindShape(nsw.ByRel[of.Rel].Bind, name, newName)
				if strings.Join(a, ",") != strings.Join(b, ",") {
					same = false
				}
			}
			c.Count("binding_graphs_compared", 1)
			if !same {
				c.Report("rename-changes-binding|"+cls, fmt.Sprintf("rename of %s to %s changes the binding structure", name, newName), witness(map[string]interface{}{"after": newFiles}))
				continue
			}
			// sampled: diagnostics of a fresh server on the renamed workspace equal the original's up to the name
			if !sampled && dirtyRel == "" && len(sw.Roots) == 0 && r.Chance(1, 40) {
				sampled = true
				if baseView == nil {
					baseView = srv.View()
				}
				nws := c.NewWorkspace(newFiles)
				nsrv, err := StartServer(ServerOpts{Root: nws.Root, Tag: tag + "r"})
				if err != nil {
					c.Inconclusive("fresh server on renamed workspace failed: " + err.Error())
					if nsrv != nil {
						nsrv.Close()
					}
					nws.Remove()
					continue
				}
				nview := nsrv.View()
				nsrv.Close()
				c.Count("fresh_server_diag_comparisons", 1)
				for _, of := range sw.Files {
					var a, b []string
					// diagnostics that depend on which of several definitions of a multiply assigned global wins
					// vary from run to run (C09's subject) and are left out of this comparison
					unstable := func(m string) bool {
						for g, defs := range sw.GlobalDefs {
							if len(defs) > 1 && strings.Contains(m, g) {
								return true
							}
						}
						return false
					}
					for _, d := range baseView[ws.URI(of.Rel)] {
						if !unstable(d.Message) {
							a = append(a, fmt.Sprintf("%d|%d|%s", d.Type, d.Range.Start.Line, d.Message))
						}
					}
					for _, d := range nview[nws.URI(of.Rel)] {
						if m := normDiagName(d.Message, newName, name); !unstable(m) {
							b = append(b, fmt.Sprintf("%d|%d|%s", d.Type, d.Range.Start.Line, m))
						}
					}
					sort.Strings(a)
					sort.Strings(b)
					if strings.Join(a, "\n") != strings.Join(b, "\n") {
						c.Report("rename-changes-diagnostics|"+cls, fmt.Sprintf("after renaming %s to %s a fresh server reports different diagnostics for %s: before %v after %v",
							name, newName, of.Rel, truncate(fmt.Sprint(setDiffS(a, b)), 300), truncate(fmt.Sprint(setDiffS(b, a)), 300)), witness(map[string]interface{}{"after": newFiles}))
					}
				}
				nws.Remove()
			}
		}
	}
}

func setDiffS(a, b []string) []string {
	m := map[string]int{}
	for _, x := range b {
		m[x]++
	}
	var out []string
	for _, x := range a {
		if m[x] > 0 {
			m[x]--
		} else {
			out = append(out, x)
		}
	}
	return out
}
