package main

// C10 — concurrent requests are safe and serialisable.
// Monitors: (1) the Go race detector on a -race build of the server while the client floods it with
// overlapping messages; (2) liveness; (3) the recorded client-side history checked with porcupine
// against a sequential model whose state is the number of mutators applied and whose expected
// answers come from a sequential replay of the same mutators on a fresh server.

import (
	"encoding/json"
	"fmt"
	"os"
	"path/filepath"
	"regexp"
	"sort"
	"strings"
	"sync"
	"time"

	"github.com/anishathalye/porcupine"
)

type c10Msg struct {
	Mut    bool        `json:"mutator"`
	Kind   string      `json:"kind"`
	Method string      `json:"method"`
	Params interface{} `json:"params"`
	QKey   string      `json:"qkey,omitempty"`
	Idx    int         `json:"mut_index,omitempty"` // 1-based index among mutators
	// Disk: auxiliary files the client rewrites on disk right before it sends this mutator (a watched-files batch after
	// e.g. a branch switch). The auxiliary files define nothing any query asks about, so answers do not depend on them.
	Disk map[string]string `json:"disk,omitempty"`
	// Del: auxiliary files the client deletes on disk right before it sends this mutator
	Del []string `json:"deleted_on_disk,omitempty"`
}

type c10In struct {
	Mut bool
	Idx int
	Q   string
}

// canonical form of an answer: JSON with arrays of objects sorted (worker pools return in any order)
func canonJSON(raw json.RawMessage) string {
	if len(raw) == 0 {
		return "null"
	}
	var v interface{}
	if err := json.Unmarshal(raw, &v); err != nil {
		return string(raw)
	}
	v = canonVal(v)
	b, _ := json.Marshal(v)
	return string(b)
}

func canonVal(v interface{}) interface{} {
	switch x := v.(type) {
	case []interface{}:
		out := make([]interface{}, len(x))
		keys := make([]string, len(x))
		for i, e := range x {
			out[i] = canonVal(e)
			b, _ := json.Marshal(out[i])
			keys[i] = string(b)
		}
		idx := make([]int, len(x))
		for i := range idx {
			idx[i] = i
		}
		sort.SliceStable(idx, func(a, b int) bool { return keys[idx[a]] < keys[idx[b]] })
		res := make([]interface{}, len(x))
		for i, j := range idx {
			res[i] = out[j]
		}
		return res
	case map[string]interface{}:
		for k, e := range x {
			x[k] = canonVal(e)
		}
		// completion item payload that depends on a per-request cache index
		delete(x, "data")
		delete(x, "sortText")
		return x
	}
	return v
}

// the file versions mutators switch between: positions are stable, names and values differ so that
// query answers distinguish the states
func c10Versions(fi int) []string {
	var out []string
	for v := 0; v < 4; v++ {
		out = append(out, fmt.Sprintf(`local cfg%d_%d = { speed = %d, name = "v%d" }
function GApi%d(a, b)
  local sum%d = a + b + cfg%d_%d.speed
  return sum%d
end
local r%d = GApi%d(1, %d)
GShared%d = r%d
print(cfg%d_%d.name, GShared%d, GShared%d)
---@class Item%d
---@field name string @v%d
---@field kids Item%d[]
---@field count number
---@type Item%d[]
local items = {}
for _, item in ipairs(items) do
  for _, inner in pairs(item.kids) do print(item.name, inner.count) end
end
`, fi, v, v*10+fi, v, fi, v, fi, v, v, v, fi, v, fi, v, fi, v, fi, (fi+1)%3, fi, v, fi, fi))
	}
	// a version with a syntax error (live diagnostics path)
	out = append(out, fmt.Sprintf("local cfg%d_9 = {\nfunction GApi%d(a, b) return a end\nGShared%d = (\n", fi, fi, fi))
	return out
}

type c10Phase struct {
	NoEdits bool              // no didChange among the mutators: the wall-clock highlight throttle (3 s after an edit) never arms
	Files   map[string]string // disk content during the phase (constant)
	Msgs    []c10Msg
}

func c10GenPhase(r *Rng, nmsg int, noEdits bool) c10Phase {
	ph := c10Phase{Files: map[string]string{}, NoEdits: noEdits}
	nfiles := 3
	rels := []string{}
	for i := 0; i < nfiles; i++ {
		rel := fmt.Sprintf("f%d.lua", i)
		rels = append(rels, rel)
		ph.Files[rel] = c10Versions(i)[0]
	}
	// more files than the worker pools have workers (NumCPU+2), some of them much larger than the rest, so that pool
	// tasks finish out of dispatch order
	naux := 34
	nbig := 4
	auxText := func(i, v int) string {
		if i >= naux-nbig {
			var sb strings.Builder
			for k := 0; k < 2500; k++ {
				fmt.Fprintf(&sb, "zb%d_%d = %d\n", i, k, k)
			}
			return sb.String()
		}
		// fixed-width version stamps: every position in the file is the same in every version
		return fmt.Sprintf("-- auxiliary %d version %04d\nlocal zq%d = { %04d, %d }\nlocal function zh%d(p) return p + %04d end\nreturn zh%d(zq%d[1])\n", i, v, i, v+1000, i, i, v+1000, i, i)
	}
	for i := 0; i < naux; i++ {
		ph.Files[fmt.Sprintf("aux/z%d.lua", i)] = auxText(i, 0)
	}
	auxVer := 0
	var auxAlive []int // small auxiliary files that still exist on disk
	for i := 0; i < naux-nbig; i++ {
		auxAlive = append(auxAlive, i)
	}
	uri := func(rel string) string { return "file://$ROOT/" + rel }
	open := map[string]bool{}
	ver := 1
	mutN := 0
	addMut := func(kind, method string, params interface{}) {
		mutN++
		ph.Msgs = append(ph.Msgs, c10Msg{Mut: true, Kind: kind, Method: method, Params: params, Idx: mutN})
	}
	// all files open at start (mutators too, part of the history)
	for i, rel := range rels {
		open[rel] = true
		_ = i
		addMut("didOpen", "textDocument/didOpen", map[string]interface{}{"textDocument": map[string]interface{}{"uri": uri(rel), "languageId": "lua", "version": 1, "text": ph.Files[rel]}})
	}
	confSent := 0
	qmethods := []string{"textDocument/hover", "textDocument/definition", "textDocument/references", "textDocument/rename", "textDocument/documentSymbol",
		"workspace/symbol", "textDocument/completion", "textDocument/documentHighlight", "luahelper/getVarColor", "textDocument/signatureHelp", "textDocument/documentColor"}
	// fixed probe positions inside the version texts (line, char)
	probes := [][2]int{{0, 8}, {1, 10}, {2, 10}, {2, 26}, {3, 10}, {5, 6}, {5, 13}, {6, 2}, {7, 8}, {7, 22}, {7, 33}, {14, 8}, {15, 10}, {15, 25}, {15, 30}, {15, 45}, {15, 50}, {15, 56}, {15, 62}}
	// the loop variables of the for-in loops at the end of every version, and their members: their types are inferred on demand
	loopProbes := probes[len(probes)-8:]
	for len(ph.Msgs) < nmsg {
		fi := r.Intn(nfiles)
		rel := rels[fi]
		if r.Chance(1, 4) {
			// mutator
			switch k := r.Intn(12); {
			case k < 6 && noEdits:
				continue
			case k < 6:
				if !open[rel] {
					continue
				}
				ver++
				if r.Chance(1, 3) {
					// an incremental change that overwrites part of a name with text of the same length (overwrite mode, a
					// one-letter rename): line 0 reads `local cfg<n>_<v> = {` and line 1 `function GApi<n>(a, b)` in every version
					// (the replacement of the six bytes `cfg<n>_<v>` moves token boundaries: an answer assembled from the old
					// analysis and the new bytes shows a name - "c,d,e0" - that no state of the document has)
					rg, txt := Range{Position{0, 6}, Position{0, 12}}, r.Pick([]string{"c,d,e0", "cfgx_0", "a,bb,c"})
					if r.Bool() {
						rg, txt = Range{Position{1, 9}, Position{1, 13}}, r.Pick([]string{"GApi", "GApj", "GApk"})
					}
					addMut("didChangeRange", "textDocument/didChange", map[string]interface{}{"textDocument": map[string]interface{}{"uri": uri(rel), "version": ver},
						"contentChanges": []interface{}{map[string]interface{}{"range": rg, "text": txt}}})
					continue
				}
				vs := c10Versions(fi)
				txt := vs[r.Intn(len(vs))]
				addMut("didChange", "textDocument/didChange", map[string]interface{}{"textDocument": map[string]interface{}{"uri": uri(rel), "version": ver},
					"contentChanges": []interface{}{map[string]interface{}{"text": txt}}})
			case k < 8:
				if !open[rel] {
					continue
				}
				// save carries the text that is on disk (disk is constant inside a phase)
				addMut("didSave", "textDocument/didSave", map[string]interface{}{"textDocument": map[string]interface{}{"uri": uri(rel)}, "text": ph.Files[rel]})
			case k == 8:
				if open[rel] {
					open[rel] = false
					addMut("didClose", "textDocument/didClose", map[string]interface{}{"textDocument": map[string]interface{}{"uri": uri(rel)}})
				} else {
					open[rel] = true
					addMut("didOpen", "textDocument/didOpen", map[string]interface{}{"textDocument": map[string]interface{}{"uri": uri(rel), "languageId": "lua", "version": 1, "text": ph.Files[rel]}})
				}
			case k == 9:
				if r.Bool() {
					addMut("watched", "workspace/didChangeWatchedFiles", map[string]interface{}{"changes": []interface{}{map[string]interface{}{"uri": uri(rel), "type": 2}}})
					continue
				}
				if len(auxAlive) > 6 && r.Chance(2, 3) {
					// an auxiliary file is deleted on disk and announced as deleted (often right after a save or a touch that
					// changed nothing)
					if open[rel] && r.Bool() {
						// ... here: the document is saved twice in a row (the second save changes nothing) just before
						for q := 0; q < 2; q++ {
							addMut("didSave", "textDocument/didSave", map[string]interface{}{"textDocument": map[string]interface{}{"uri": uri(rel)}, "text": ph.Files[rel]})
						}
					}
					ai := auxAlive[len(auxAlive)-1]
					auxAlive = auxAlive[:len(auxAlive)-1]
					arel := fmt.Sprintf("aux/z%d.lua", ai)
					addMut("watched-deleted", "workspace/didChangeWatchedFiles", map[string]interface{}{"changes": []interface{}{map[string]interface{}{"uri": uri(arel), "type": 3}}})
					ph.Msgs[len(ph.Msgs)-1].Del = []string{arel}
					continue
				}
				// several files really change on disk and are announced in one notification: pass one runs on a worker pool
				auxVer++
				disk := map[string]string{}
				var chs []interface{}
				pa := r.Perm(len(auxAlive))
				for _, pi := range pa[:min(len(pa), r.Range(3, 10))] {
					ai := auxAlive[pi]
					arel := fmt.Sprintf("aux/z%d.lua", ai)
					disk[arel] = auxText(ai, auxVer)
					chs = append(chs, map[string]interface{}{"uri": uri(arel), "type": 2})
				}
				addMut("watched", "workspace/didChangeWatchedFiles", map[string]interface{}{"changes": chs})
				ph.Msgs[len(ph.Msgs)-1].Disk = disk
			default:
				w := map[string]interface{}{}
				for i, kk := range checkFlagNames {
					w[kk] = true
					if i == 4 && confSent%2 == 1 {
						w[kk] = false
					}
				}
				confSent++
				addMut("config", "workspace/didChangeConfiguration", map[string]interface{}{"settings": map[string]interface{}{"luahelper": map[string]interface{}{"Warn": w, "base": map[string]interface{}{}}}})
			}
			continue
		}
		if !open[rel] {
			continue
		}
		m := qmethods[r.Intn(len(qmethods))]
		var params map[string]interface{}
		pr := probes[r.Intn(len(probes))]
		if (m == "textDocument/hover" || m == "textDocument/definition") && r.Chance(1, 2) {
			// a burst of cursor queries on the loop variables (an editor sends hover and definition together on ctrl+hover):
			// several of them are in flight at the same time
			for k := r.Range(3, 6); k > 0; k-- {
				bm := r.Pick([]string{"textDocument/hover", "textDocument/definition"})
				bp := loopProbes[r.Intn(len(loopProbes))]
				params := tdPos(uri(rel), bp[0], bp[1])
				b, _ := json.Marshal(params)
				ph.Msgs = append(ph.Msgs, c10Msg{Kind: strings.TrimPrefix(bm, "textDocument/"), Method: bm, Params: params, QKey: bm + "|" + string(b)})
			}
			continue
		}
		switch m {
		case "textDocument/documentSymbol", "textDocument/documentColor":
			params = map[string]interface{}{"textDocument": map[string]interface{}{"uri": uri(rel)}}
		case "luahelper/getVarColor":
			params = map[string]interface{}{"uri": uri(rel)}
		case "workspace/symbol":
			params = map[string]interface{}{"query": r.Pick([]string{"GApi", "cfg", "GShared", "sum"})}
		default:
			params = tdPos(uri(rel), pr[0], pr[1])
			if m == "textDocument/references" {
				params["context"] = map[string]interface{}{"includeDeclaration": true}
			}
			if m == "textDocument/rename" {
				params["newName"] = "renamedX"
			}
			if m == "textDocument/completion" {
				params["context"] = map[string]interface{}{"triggerKind": 1}
			}
		}
		b, _ := json.Marshal(params)
		ph.Msgs = append(ph.Msgs, c10Msg{Kind: strings.TrimPrefix(strings.TrimPrefix(m, "textDocument/"), "luahelper/"), Method: m, Params: params, QKey: m + "|" + string(b)})
		// a name-carrying request directly followed by an overwrite of the same length in the same document (typing in
		// overwrite mode right after the outline was requested): the edit must not reach into the answer under way
		if !noEdits && (m == "textDocument/documentSymbol" || m == "textDocument/completion" || m == "workspace/symbol") && open[rel] && r.Chance(9, 10) {
			ver++
			addMut("didChangeRange", "textDocument/didChange", map[string]interface{}{"textDocument": map[string]interface{}{"uri": uri(rel), "version": ver},
				"contentChanges": []interface{}{map[string]interface{}{"range": Range{Position{0, 6}, Position{0, 12}}, "text": r.Pick([]string{"c,d,e0", "cfgx_0", "a,bb,c"})}}})
		}
	}
	return ph
}

type c10Obs struct {
	Call, Ret int64
	Out       string
	Answered  bool
}

func substRoot(v interface{}, root string) json.RawMessage {
	b, _ := json.Marshal(v)
	return json.RawMessage(strings.ReplaceAll(string(b), "$ROOT", root))
}

// c10Flood sends every message of the phase without waiting and records the history.
func c10Flood(c *Ctx, ph c10Phase, binary, tag string, raceDir string) (obs []c10Obs, srvDied bool, crash CrashInfo, races []string) {
	ws := c.NewWorkspace(ph.Files)
	defer ws.Remove()
	env := []string{}
	if raceDir != "" {
		os.MkdirAll(raceDir, 0o755)
		env = append(env, "GORACE=halt_on_error=0 log_path="+filepath.Join(raceDir, "race"))
	}
	srv, err := StartServer(ServerOpts{Root: ws.Root, Binary: binary, Tag: tag, Env: env})
	if err != nil {
		if srv != nil {
			srv.WaitDeath(3 * time.Second)
			crash = srv.Crash()
			srv.Close()
		}
		return nil, true, crash, nil
	}
	// the first didChangeConfiguration is ignored by design: send it before the flood
	srv.Notify("workspace/didChangeConfiguration", map[string]interface{}{"settings": map[string]interface{}{}})
	srv.Fence()
	obs = make([]c10Obs, len(ph.Msgs))
	pend := make([]*Pending, len(ph.Msgs))
	var wg sync.WaitGroup
	for i, m := range ph.Msgs {
		p := substRoot(m.Params, ws.Root)
		if m.Mut {
			for rel, txt := range m.Disk {
				ws.Write(rel, txt)
			}
			for _, rel := range m.Del {
				ws.Delete(rel)
			}
			srv.mu.Lock()
			clk := srv.clock + 1
			srv.mu.Unlock()
			obs[i].Call = clk
			if err := srv.Notify(m.Method, p); err != nil {
				srvDied = true
				break
			}
			continue
		}
		pd, err := srv.Send(m.Method, p)
		if err != nil {
			srvDied = true
			break
		}
		obs[i].Call = pd.SentAt
		pend[i] = pd
	}
	for i, pd := range pend {
		if pd == nil {
			continue
		}
		wg.Add(1)
		go func(i int, pd *Pending) {
			defer wg.Done()
			rep, err := pd.Wait()
			if err != nil {
				return
			}
			obs[i].Answered = true
			obs[i].Ret = rep.RecvAt
			if rep.Err != nil {
				obs[i].Out = "error:" + rep.Err.Message
			} else {
				obs[i].Out = canonJSON(rep.Result)
			}
		}(i, pd)
	}
	wg.Wait()
	if err := srv.Fence(); err != nil {
		// only a process that has exited has died; a fence that is not answered by a live process is either a server that
		// makes no progress at all (blocked) or a loaded machine (inconclusive)
		switch {
		case srv.WaitDeath(5 * time.Second):
			srvDied = true
		case err == ErrBlocked:
			crash = CrashInfo{Class: "blocked"}
		default:
			crash = CrashInfo{Class: "inconclusive", Detail: err.Error()}
		}
	}
	srv.mu.Lock()
	endClk := srv.clock + 1
	srv.mu.Unlock()
	// a notification has completed once any request sent after it has been answered (dispatch barrier)
	var minRetAfter int64 = endClk
	for i := len(ph.Msgs) - 1; i >= 0; i-- {
		if ph.Msgs[i].Mut {
			obs[i].Ret = minRetAfter
			obs[i].Answered = true
		} else if obs[i].Answered && obs[i].Ret < minRetAfter {
			minRetAfter = obs[i].Ret
		}
	}
	if srvDied {
		srv.WaitDeath(5 * time.Second)
		crash = srv.Crash()
	}
	srv.Close()
	if raceDir != "" {
		races = c10ParseRaces(raceDir)
	}
	return obs, srvDied, crash, races
}

var raceHandlerRe = regexp.MustCompile(`langserver\.\(\*LspServer\)\.([A-Za-z]+)`)

// c10ParseRaces returns one class string per DATA RACE block: unordered pair of outermost handlers + in-scope flag.
func c10ParseRaces(dir string) []string {
	var out []string
	files, _ := filepath.Glob(filepath.Join(dir, "race.*"))
	for _, f := range files {
		b, err := os.ReadFile(f)
		if err != nil {
			continue
		}
		blocks := strings.Split(string(b), "WARNING: DATA RACE")
		for _, bl := range blocks[1:] {
			if i := strings.Index(bl, "=================="); i >= 0 {
				bl = bl[:i]
			}
			// split into the access stacks (first two paragraphs)
			paras := strings.Split(bl, "\n\n")
			var hs []string
			telemetry := 0
			for pi, p := range paras {
				if pi >= 2 {
					break
				}
				ms := raceHandlerRe.FindAllStringSubmatch(p, -1)
				h := "(no handler frame)"
				if len(ms) > 0 {
					h = ms[len(ms)-1][1] // outermost
				}
				// innermost frame of this access: the first "file.go:line" after the access header
				lines := strings.Split(p, "\n")
				for li, ln := range lines {
					if strings.Contains(ln, ".go:") {
						fn := ""
						if li > 0 {
							fn = lines[li-1]
						}
						if strings.Contains(ln, "get_online_req.go") || strings.Contains(ln, "online_report.go") || strings.Contains(fn, "UDPReportOnline") || strings.Contains(fn, "handleRecv") {
							telemetry++
						}
						break
					}
				}
				hs = append(hs, h)
			}
			sort.Strings(hs)
			cls := strings.Join(hs, "+")
			if os.Getenv("VERIF_C10_DUMP") != "" {
				fmt.Println("RACE BLOCK", cls, "\n", truncate(bl, 3000))
			}
			if telemetry > 0 {
				// the accessed variable is touched by the telemetry code itself (innermost frame of an access
				// lies in get_online_req.go / online_report.go): usage-report state, outside every property
				cls = "out-of-scope-telemetry:" + cls
			}
			out = append(out, cls)
		}
	}
	return out
}

// c10Reference replays the mutators sequentially on a fresh (non-race) server and asks every distinct
// query after every prefix. ref[q][k] is the canonical answer in state k; missing = unstable/unknown.
func c10Reference(c *Ctx, ph c10Phase, tag string) (map[string]map[int]string, error) {
	queries := map[string]c10Msg{}
	var qkeys []string
	for _, m := range ph.Msgs {
		if !m.Mut {
			if _, ok := queries[m.QKey]; !ok {
				queries[m.QKey] = m
				qkeys = append(qkeys, m.QKey)
			}
		}
	}
	sort.Strings(qkeys)
	one := func(run int) (map[string]map[int]string, error) {
		ws := c.NewWorkspace(ph.Files)
		defer ws.Remove()
		srv, err := StartServer(ServerOpts{Root: ws.Root, Tag: fmt.Sprintf("%sref%d", tag, run)})
		if err != nil {
			if srv != nil {
				srv.Close()
			}
			return nil, err
		}
		defer srv.Close()
		srv.Notify("workspace/didChangeConfiguration", map[string]interface{}{"settings": map[string]interface{}{}})
		srv.Fence()
		ref := map[string]map[int]string{}
		ask := func(k int) error {
			for _, qk := range qkeys {
				m := queries[qk]
				rep, err := srv.Request(m.Method, substRoot(m.Params, ws.Root))
				if err != nil {
					return err
				}
				if ref[qk] == nil {
					ref[qk] = map[int]string{}
				}
				if rep.Err != nil {
					ref[qk][k] = "error:" + rep.Err.Message
				} else {
					ref[qk][k] = canonJSON(rep.Result)
				}
			}
			return nil
		}
		// a replay that stops with a silent, idle server leaves a goroutine dump of that server behind (diagnosis of a deadlock)
		blockedDump := func(err error, at string) {
			if err == ErrBlocked && os.Getenv("VERIF_C10_DUMP") != "" {
				srv.Quit()
				srv.WaitDeath(5 * time.Second)
				fmt.Printf("BLOCKED-DUMP %s %s\n%s\nEND-BLOCKED-DUMP\n", tag, at, srv.StderrHead(60000))
			}
		}
		if err := ask(0); err != nil {
			blockedDump(err, "initial queries")
			return nil, err
		}
		k := 0
		for _, m := range ph.Msgs {
			if !m.Mut {
				continue
			}
			k++
			for rel, txt := range m.Disk {
				ws.Write(rel, txt)
			}
			for _, rel := range m.Del {
				ws.Delete(rel)
			}
			srv.Notify(m.Method, substRoot(m.Params, ws.Root))
			if err := ask(k); err != nil {
				blockedDump(err, fmt.Sprintf("after mutator %d (%s)", k, m.Kind))
				return nil, err
			}
		}
		// answers must not depend on the scratch directory name
		for _, mm := range ref {
			for kk, v := range mm {
				mm[kk] = strings.ReplaceAll(v, ws.Root, "$ROOT")
			}
		}
		return ref, nil
	}
	a, err := one(0)
	if err != nil {
		return nil, err
	}
	b, err := one(1)
	if err != nil {
		return nil, err
	}
	for q, mm := range a {
		for k, v := range mm {
			if b[q][k] != v {
				delete(mm, k) // unstable between two sequential replays: not asserted
				c.Count("reference_entries_unstable", 1)
			}
		}
	}
	return a, nil
}

func runC10(c *Ctx) {
	nPhases := c.N(6, 60)
	repeats := c.N(3, 10)
	nmsg := c.N(260, 900)
	raceBin := filepath.Join(buildDir(), "lualsp-race")
	if _, err := os.Stat(raceBin); err != nil {
		c.Inconclusive("race-instrumented server binary missing: " + err.Error())
		c.Finish("", 1)
	}
	root := NewRng(c.Seed).Fork(10)
	raceClasses := map[string]int{}
	var rmu sync.Mutex
	overlap := map[string]int{}
	silentOnce := 0
	parallel(nPhases, 6, func(pi int) {
		r := root.Fork(uint64(pi))
		// every third phase has no edits: saves, opens/closes, watched-file events and settings changes only
		ph := c10GenPhase(r, nmsg, pi%3 == 2)
		if ph.NoEdits {
			c.Count("phases_without_edits", 1)
		}
		tag := fmt.Sprintf("c10p%d", pi)
		ref, err := c10Reference(c, ph, tag)
		if err == ErrBlocked {
			// a server that stops consuming CPU and never answers while the very same messages are sent one at a time: if it
			// does so again on a second replay it is a deadlock (a lock that is never released), not a scheduling accident
			ref2, err2 := c10Reference(c, ph, tag+"again")
			if err2 == ErrBlocked {
				c.Report("deadlock|sequential-replay", "the server stops answering (no CPU progress, process alive) when the messages of this phase are sent one at a time; reproduced on a second replay",
					map[string]interface{}{"phase": ph})
				return
			}
			// not reproduced: the repetition is the reference of this phase (the phase is checked in full); the unreproduced stop is
			// counted, and more than a few of them in one run leave the run inconclusive
			c.Count("reference_replays_silent_once_and_answered_on_repetition", 1)
			rmu.Lock()
			silentOnce++
			tooMany := silentOnce > 3
			rmu.Unlock()
			if tooMany {
				c.Inconclusive("more than three sequential reference replays ended with a silent idle server and were answered on repetition")
				return
			}
			ref, err = ref2, err2
		}
		if err != nil {
			c.Inconclusive("sequential reference replay failed: " + err.Error())
			return
		}
		nm := 0
		for _, m := range ph.Msgs {
			if m.Mut {
				nm++
			}
		}
		for rep := 0; rep < repeats; rep++ {
			c.Eval(1)
			raceDir := filepath.Join(c.Tmp, fmt.Sprintf("race_%d_%d", pi, rep))
			bin := raceBin
			obs, died, crash, races := c10Flood(c, ph, bin, fmt.Sprintf("%sr%d", tag, rep), raceDir)
			c.Count("floods", 1)
			c.Count("messages_flooded", int64(len(ph.Msgs)))
			rmu.Lock()
			for _, rc := range races {
				raceClasses[rc]++
			}
			rmu.Unlock()
			for _, rc := range races {
				if strings.HasPrefix(rc, "out-of-scope-telemetry:") {
					c.Count("race_reports_out_of_scope_telemetry", 1)
					continue
				}
				c.Count("race_reports_in_scope", 1)
				c.Report("data-race|"+rc, "the race detector reported unsynchronised access between handlers "+rc, map[string]interface{}{"phase": ph, "race_class": rc})
			}
			if died {
				c.Report("crash-under-flood|"+crash.Sig(), "server died under a message flood: "+crash.Detail, map[string]interface{}{"phase": ph})
				continue
			}
			if crash.Class == "blocked" {
				// alive, no CPU progress, no answer: a deadlock if the same flood blocks again
				_, died2, crash2, _ := c10Flood(c, ph, bin, fmt.Sprintf("%sr%dagain", tag, rep), "")
				if !died2 && crash2.Class == "blocked" {
					c.Report("deadlock|under-flood", "the server stops answering under this message flood (process alive, no CPU progress); reproduced on a second flood", map[string]interface{}{"phase": ph})
				} else {
					c.Inconclusive("a flood ended with an unanswered fence once (server alive, no CPU progress) and not on the repetition")
				}
				continue
			}
			if crash.Class == "inconclusive" {
				c.Inconclusive("the fence that closes a flood was not answered in time by a live server: " + crash.Detail)
				continue
			}
			// history -> porcupine
			var ops []porcupine.Operation
			for i, m := range ph.Msgs {
				o := obs[i]
				if m.Mut {
					ops = append(ops, porcupine.Operation{ClientId: 0, Input: c10In{Mut: true, Idx: m.Idx}, Call: o.Call, Output: "", Return: o.Ret})
					continue
				}
				if !o.Answered {
					continue
				}
				out := o.Out
				ops = append(ops, porcupine.Operation{ClientId: 1 + i, Input: c10In{Q: m.QKey}, Call: o.Call, Output: out, Return: o.Ret})
			}
			// normalise scratch path in outputs
			for i := range ops {
				if s, ok := ops[i].Output.(string); ok {
					ops[i].Output = wsRootRe.ReplaceAllString(s, "$$ROOT")
				}
			}
			model := porcupine.Model{
				Init: func() interface{} { return 0 },
				Step: func(state, input, output interface{}) (bool, interface{}) {
					k := state.(int)
					in := input.(c10In)
					if in.Mut {
						if in.Idx == k+1 {
							return true, k + 1
						}
						return false, k
					}
					exp, ok := ref[in.Q][k]
					if !ok {
						return true, k // unstable reference entry: nothing asserted
					}
					out := output.(string)
					if !ph.NoEdits && strings.HasPrefix(in.Q, "textDocument/documentHighlight|") && (out == "null" || out == "[]") {
						return true, k // highlight is throttled by wall clock for 3 s after an edit
					}
					return out == exp, k
				},
				Equal: func(a, b interface{}) bool { return a.(int) == b.(int) },
			}
			res, _ := porcupine.CheckOperationsVerbose(model, ops, 25*time.Second)
			// The model's state is just the number of mutators applied and mutators are applied in index order, so this
			// history also has an exact polynomial decision (c10Monotone). It is cross-checked against porcupine on every
			// history porcupine finishes, and decides the histories on which porcupine's search times out.
			mono := c10Monotone(ops, model)
			switch {
			case res == porcupine.Unknown:
				c.Count("histories_decided_by_monotone_checker_after_porcupine_timeout", 1)
				if mono {
					res = porcupine.Ok
				} else {
					res = porcupine.Illegal
				}
			case (res == porcupine.Ok) != mono:
				c.Inconclusive(fmt.Sprintf("harness inconsistency: porcupine says %v, monotone checker says %v", res, mono))
				continue
			default:
				c.Count("histories_where_porcupine_and_monotone_checker_agree", 1)
			}
			c.Count("histories_checked", 1)
			c.Count("history_operations", int64(len(ops)))
			// overlap statistics: query q overlapped mutator m if their intervals intersect
			for i, m := range ph.Msgs {
				if m.Mut || !obs[i].Answered {
					continue
				}
				for j, mm := range ph.Msgs {
					if mm.Mut && obs[j].Call <= obs[i].Ret && obs[i].Call <= obs[j].Ret {
						rmu.Lock()
						overlap[m.Kind+" x "+mm.Kind]++
						rmu.Unlock()
					}
				}
			}
			switch res {
			case porcupine.Ok:
				c.Distinct(fmt.Sprintf("%d/%d/%d", pi, rep, len(ops)))
			case porcupine.Unknown:
				c.Inconclusive("porcupine timed out on a history")
			case porcupine.Illegal:
				// find an answer that equals no reference state at all (strongest witness)
				what := "the recorded history has no sequential explanation"
				sig := "not-serialisable"
				for i, m := range ph.Msgs {
					if m.Mut || !obs[i].Answered {
						continue
					}
					out := wsRootRe.ReplaceAllString(obs[i].Out, "$$ROOT")
					if !ph.NoEdits && strings.HasPrefix(m.QKey, "textDocument/documentHighlight|") && (out == "null" || out == "[]") {
						continue
					}
					match := false
					stable := 0
					for k := 0; k <= nm; k++ {
						if e, ok := ref[m.QKey][k]; ok {
							stable++
							if e == out {
								match = true
							}
						}
					}
					if !match && stable == nm+1 {
						what = fmt.Sprintf("answer to %s equals the sequential answer in no state: %s", m.Method, truncate(out, 300))
						sig = "answer-matches-no-state|" + m.Kind
						break
					}
				}
				c.Report(sig, what, map[string]interface{}{"phase": ph, "observations": obs})
			}
		}
		if pi == 0 {
			c.Sample(map[string]interface{}{"messages": len(ph.Msgs), "mutators": nm, "first_messages": ph.Msgs[:6]})
		}
	})
	c.Set("race_report_classes", raceClasses)
	c.Set("overlapping_query_x_mutator_pairs_observed", overlap)
	c.Set("distinct_overlap_kinds", len(overlap))
	c.Finish("message floods (queries of 11 kinds on 3 open files mixed with didChange/didSave/didOpen/didClose/watched (single file, and batches of 3-10 files rewritten on disk)/configuration mutators, nothing awaited) "+
		"against the -race server, each phase repeated; race detector reports classified by handler pair; the client-side history (call = send, return = response, "+
		"notifications closed by the dispatch barrier) is checked with porcupine against the sequential replay of the same mutators. distinct_nontrivial = floods whose "+
		"history was accepted by porcupine with at least one query overlapping a mutator", 3)
}

var wsRootRe = regexp.MustCompile(`/tmp/lhv\d+/w\d+/ws`)

// c10Monotone decides linearizability of a history against the C10 model exactly. In that model the state is the number k
// of mutators applied, mutator j is only legal in state j-1, and a query is legal in the states whose reference answer it
// equals. A linearization is therefore an assignment of a state k(q) to every query such that (real time: a precedes b
// when a.Return < b.Call) k(q) >= j for every mutator j that precedes q, k(q) < j for every mutator j that q precedes, and
// k(p) <= k(q) whenever query p precedes query q. Real-time precedence of intervals is an interval order (no 2+2), the
// assigned order is a weak order, so the union is acyclic iff no pair contradicts - these pairwise conditions are
// sufficient. Assigning, in order of return time, the smallest admissible state is optimal because every constraint a
// query inherits from earlier ones is a lower bound.
func c10Monotone(ops []porcupine.Operation, model porcupine.Model) bool {
	type mut struct {
		idx       int
		call, ret int64
	}
	var muts []mut
	var qs []porcupine.Operation
	for _, o := range ops {
		in := o.Input.(c10In)
		if in.Mut {
			muts = append(muts, mut{in.Idx, o.Call, o.Return})
		} else {
			qs = append(qs, o)
		}
	}
	nm := len(muts)
	sort.Slice(muts, func(a, b int) bool { return muts[a].idx < muts[b].idx })
	for i, m := range muts {
		if m.idx != i+1 {
			return false // a mutator is missing from the history: not explainable by the model
		}
		if i > 0 && m.ret < muts[i-1].call {
			return false
		}
	}
	sort.SliceStable(qs, func(a, b int) bool {
		if qs[a].Return != qs[b].Return {
			return qs[a].Return < qs[b].Return
		}
		return qs[a].Call < qs[b].Call
	})
	assigned := make([]int, len(qs))
	for i, q := range qs {
		lo, hi := 0, nm
		for _, m := range muts {
			if m.ret < q.Call && m.idx > lo {
				lo = m.idx
			}
			if q.Return < m.call && m.idx-1 < hi {
				hi = m.idx - 1
			}
		}
		for p := 0; p < i; p++ {
			if qs[p].Return < q.Call && assigned[p] > lo {
				lo = assigned[p]
			}
		}
		found := -1
		for k := lo; k <= hi; k++ {
			if ok, _ := model.Step(k, q.Input, q.Output); ok {
				found = k
				break
			}
		}
		if found < 0 {
			return false
		}
		assigned[i] = found
	}
	return true
}

func init() {
	// vcheck c10ref <rounds>: only the sequential reference replays of the thorough tier's phases, six at a time, <rounds> times over;
	// with VERIF_C10_DUMP=1 a replay that ends with a silent idle server prints that server's goroutine dump
	special["c10ref"] = func(args []string) int {
		c := NewCtx("C10", "thorough")
		defer os.RemoveAll(c.Tmp)
		rounds := 1
		if len(args) > 0 {
			fmt.Sscan(args[0], &rounds)
		}
		root := NewRng(c.Seed).Fork(10)
		blocked := 0
		for round := 0; round < rounds; round++ {
			parallel(60, 6, func(pi int) {
				r := root.Fork(uint64(pi))
				ph := c10GenPhase(r, 900, pi%3 == 2)
				t0 := time.Now()
				_, err := c10Reference(c, ph, fmt.Sprintf("c10ref%dp%d", round, pi))
				fmt.Printf("round %d phase %d: %v (%.0fs)\n", round, pi, err, time.Since(t0).Seconds())
				if err == ErrBlocked {
					blocked++
				}
			})
		}
		fmt.Println("blocked replays:", blocked)
		return 0
	}
}
