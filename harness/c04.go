package main

// C04 — every reported range lies in the document and covers exactly the thing it names.
// Monitor: every range in publishDiagnostics, definition, references, documentHighlight, rename,
// documentSymbol and workspace/symbol answers is sliced out of the client's own text.

import (
	"fmt"
	"regexp"
	"sort"
	"strings"
	"time"
)

type c04Prefix struct {
	Class string
	Text  string // placed at the start of a line, followed by a space and the statement
}

// line-prefix classes: something syntactically complete that precedes the statement on the same line
func c04Prefixes(r *Rng, n int) []c04Prefix {
	lvl := r.Intn(4)
	eq := strings.Repeat("=", lvl)
	all := []c04Prefix{
		{"none", ""},
		{"tabs", "\t\t"},
		{"spaces", "      "},
		{"short-string-plain", fmt.Sprintf("s%d = \"plain text\";", n)},
		{"short-string-single-quote", fmt.Sprintf("s%d = 'plain';", n)},
		{"short-string-escape-n", fmt.Sprintf("s%d = \"a\\nb\";", n)},
		{"short-string-escape-quote", fmt.Sprintf("s%d = \"q\\\"q\";", n)},
		{"short-string-escape-backslash", fmt.Sprintf("s%d = \"b\\\\b\";", n)},
		{"short-string-escape-decimal", fmt.Sprintf("s%d = \"d\\065\\10x\";", n)},
		{"short-string-escape-hex", fmt.Sprintf("s%d = \"h\\x41\";", n)},
		{"short-string-escape-unicode", fmt.Sprintf("s%d = \"u\\u{48}\";", n)},
		{"short-string-escape-z", fmt.Sprintf("s%d = \"z\\z   z\";", n)},
		{"short-string-2byte", fmt.Sprintf("s%d = \"é я ß\";", n)},
		{"short-string-3byte", fmt.Sprintf("s%d = \"中文 €\";", n)},
		{"short-string-astral", fmt.Sprintf("s%d = \"😀 𝔘\";", n)},
		{"short-string-plane-boundaries", fmt.Sprintf("s%d = \"\U00010000 \uffff\U00010001 \U0010ffff\ud7ff\ue000\";", n)},
		{"long-comment-plane-boundaries", "--[[ \U00010000\U00010000 \uffff ]]"},
		{"short-string-width-boundaries", fmt.Sprintf("s%d = \"\x7f\u0080 \u07ff\u0800 \ufffd\";", n)},
		{"short-string-line-continuation", fmt.Sprintf("s%d = \"first\\\nsecond\";", n)},
		{"short-string-z-across-lines", fmt.Sprintf("s%d = \"first\\z\n   second\";", n)},
		{"long-string-same-line", fmt.Sprintf("s%d = [%s[long]%s];", n, eq, eq)},
		{"long-string-ending-on-line", fmt.Sprintf("s%d = [%s[first\nsecond]%s];", n, eq, eq)},
		{"long-comment-same-line", fmt.Sprintf("--[%s[ note ]%s]", eq, eq)},
		{"long-comment-ending-on-line", fmt.Sprintf("--[%s[ first\nsecond ]%s]", eq, eq)},
		{"long-comment-2byte", "--[[ é я ]]"},
		{"long-comment-astral", "--[[ 😀 ]]"},
		{"long-string-3byte", fmt.Sprintf("s%d = [[中文]];", n)},
		{"call-with-string-arg", fmt.Sprintf("print(\"t\\tx\", %d);", n)},
		{"several", fmt.Sprintf("s%d = \"a\\tb\" --[[ c ]] t%d = [[x]];", n, n)},
	}
	// composed prefixes: random combinations of the ingredients above inside ONE string / comment, so that faults that
	// need two ingredients together (e.g. a multi-byte character before an in-string line break) are reached
	all = append(all, c04Composed(r, n, "short"), c04Composed(r, n, "short"), c04Composed(r, n, "long"), c04Composed(r, n, "comment"))
	return all
}

func c04Composed(r *Rng, n int, kind string) c04Prefix {
	type seg struct{ feat, text string }
	plain := []seg{{"ascii", "ab c"}, {"2byte", "é я"}, {"3byte", "中 €"}, {"astral", "😀𝔘"}, {"tab", "\t"}, {"first-astral", "\U00010000"}, {"last-bmp", "\uffff"}, {"last-astral", "\U0010ffff"}, {"width-boundaries", "\x7f\u0080\u07ff\u0800"}}
	shortOnly := []seg{{"esc-n", "\\n"}, {"esc-quote", "\\\""}, {"esc-backslash", "\\\\"}, {"esc-decimal", "\\065"}, {"esc-hex", "\\x41"},
		{"esc-unicode", "\\u{1F600}"}, {"esc-z-inline", "\\z  "}, {"line-continuation", "\\\n"}, {"z-across-lines", "\\z\n  "}, {"z-across-two-lines", "\\z \n\n "}}
	longOnly := []seg{{"newline", "\n"}, {"bracket-noise", "]"}, {"quote-noise", "\""}}
	pool := plain
	if kind == "short" {
		pool = append(append([]seg{}, plain...), shortOnly...)
	} else {
		pool = append(append([]seg{}, plain...), longOnly...)
	}
	k := r.Range(2, 5)
	feats := map[string]bool{}
	var body strings.Builder
	for i := 0; i < k; i++ {
		sg := pool[r.Intn(len(pool))]
		feats[sg.feat] = true
		body.WriteString(sg.text)
	}
	var fl []string
	for f := range feats {
		fl = append(fl, f)
	}
	sort.Strings(fl)
	cls := kind + "[" + strings.Join(fl, "+") + "]"
	lvl := r.Range(1, 3)
	eq := strings.Repeat("=", lvl)
	switch kind {
	case "short":
		return c04Prefix{cls, fmt.Sprintf("s%d = \"%s\";", n, body.String())}
	case "long":
		return c04Prefix{cls, fmt.Sprintf("s%d = [%s[%s]%s];", n, eq, body.String(), eq)}
	}
	return c04Prefix{cls, fmt.Sprintf("--[%s[%s]%s]", eq, body.String(), eq)}
}

type c04File struct {
	Rel     string
	Text    string
	LineCls map[int]string // 0-based line -> prefix class of the statement on it
	Anno    []c04AnnoSite  // type names inside annotation comments (not tokens of the program)
}

type c04AnnoSite struct {
	Line, Col int
	Name      string
}

// c04GenFile builds a file of one-line statements, each preceded by a prefix of a random class.
func c04GenFile(r *Rng, idx int, le string, nfiles int) c04File {
	var sb strings.Builder
	cls := map[int]string{}
	line := 0
	emit := func(n int, stmt string) {
		ps := c04Prefixes(r, n)
		p := ps[r.Intn(len(ps))]
		txt := p.Text
		if txt != "" {
			txt += " "
		}
		full := txt + stmt
		full = strings.ReplaceAll(full, "\n", le)
		line += strings.Count(txt, "\n")
		cls[line] = p.Class
		sb.WriteString(full)
		sb.WriteString(le)
		line++
	}
	pre := fmt.Sprintf("f%d", idx)
	n := 0
	nx := func() int { n++; return n }
	emit(nx(), fmt.Sprintf("local %salpha = 1", pre))
	emit(nx(), fmt.Sprintf("local %sbeta = %salpha + 2", pre, pre))
	emit(nx(), fmt.Sprintf("%sGlob = { field = %salpha, other = %sbeta }", pre, pre, pre))
	emit(nx(), fmt.Sprintf("function %sFunc(%sp1, %sp2) return %sp1 + %sp2 + %salpha end", pre, pre, pre, pre, pre, pre))
	emit(nx(), fmt.Sprintf("local function %shelper(%sq) return %sq * %sbeta end", pre, pre, pre, pre))
	emit(nx(), fmt.Sprintf("print(%salpha, %sbeta, %sGlob.field, %sFunc(1, 2), %shelper(3))", pre, pre, pre, pre, pre))
	emit(nx(), fmt.Sprintf("local %sunused = %salpha", pre, pre))                          // type 4
	emit(nx(), fmt.Sprintf("print(%sundefinedName)", pre))                                 // type 2
	emit(nx(), fmt.Sprintf("local %sw = 1", pre))                                          // type 4 + 17 below
	emit(nx(), fmt.Sprintf("%sw = 2", pre))                                                // type 17
	emit(nx(), fmt.Sprintf("function %sDup(%sd, %sd) return %sd end", pre, pre, pre, pre)) // type 13
	emit(nx(), fmt.Sprintf("print(%sLate)", pre))                                          // type 3
	emit(nx(), fmt.Sprintf("%sLate = %sGlob", pre, pre))
	emit(nx(), fmt.Sprintf("for %si = 1, %salpha do print(%si, %sbeta) end", pre, pre, pre, pre))
	emit(nx(), fmt.Sprintf("%sTab = {} function %sTab.method(%sself2, %sarg) return %sarg end", pre, pre, pre, pre, pre))
	emit(nx(), fmt.Sprintf("print(%sTab.method(%sTab, %salpha), %sDup(1, 2))", pre, pre, pre, pre))
	// multi-level targets whose middle level is created implicitly by the assignment
	emit(nx(), fmt.Sprintf("%sGlob.%smid.%sleaf = 8080", pre, pre, pre))
	emit(nx(), fmt.Sprintf("function %sTab.%sdeep.%sfn(%sz) return %sz end", pre, pre, pre, pre, pre))
	emit(nx(), fmt.Sprintf("print(%sGlob.%smid.%sleaf, %sTab.%sdeep.%sfn(1))", pre, pre, pre, pre, pre, pre))
	// uses of another file's globals: every answer for them has to lie in (and name text of) the right document
	if nfiles > 1 {
		o := fmt.Sprintf("f%d", (idx+1)%nfiles)
		emit(nx(), fmt.Sprintf("print(%sGlob, %sFunc(1, 2), %sTab.method(%sTab, 1))", o, o, o, o))
		emit(nx(), fmt.Sprintf("local %sborrow = %sFunc(%sGlob, %sGlob)", pre, o, o, o))
		emit(nx(), fmt.Sprintf("print(%sborrow)", pre))
		// a member added to the other file's table: it is declared in this document
		emit(nx(), fmt.Sprintf("function %sTab.%sadded(%sq2) return %sq2 end", o, pre, pre, pre))
		emit(nx(), fmt.Sprintf("print(%sTab.%sadded(1))", o, pre))
	}
	// one file in three has a statement that ends in a character the lexer does not know (a stray @, $, ?, a full-width
	// semicolon from an input method), directly in front of the line break: one syntax error, and every position below it
	// must still be that of the client's text
	if r.Fork(0x696c6c).Chance(1, 3) {
		emit(nx(), fmt.Sprintf("local %sill = 10 %s", pre, r.Fork(0x696c6d).Pick([]string{"@", "$", "?", "；", "`", "!"})))
		emit(nx(), fmt.Sprintf("print(%sill, %salpha)", pre, pre))
	}
	// annotation types: an alias and a class declared here, used here and in the next file (go-to-definition on a type
	// name inside an annotation comment answers with a location like any other)
	var anno []c04AnnoSite
	raw := func(txt string, names ...string) {
		for _, nmm := range names {
			anno = append(anno, c04AnnoSite{line, strings.LastIndex(txt, nmm), nmm})
		}
		sb.WriteString(txt)
		sb.WriteString(le)
		line++
	}
	raw(fmt.Sprintf("---@alias %sAliasT number", pre))
	raw(fmt.Sprintf("---@class %sCls", pre))
	raw(fmt.Sprintf("---@field %sfld %sAliasT", pre, pre), pre+"AliasT")
	raw(fmt.Sprintf("local %sClsTab = {}", pre))
	raw(fmt.Sprintf("---@type %sCls", pre), pre+"Cls")
	raw(fmt.Sprintf("local %sobj = %sClsTab", pre, pre))
	raw(fmt.Sprintf("print(%sobj)", pre))
	if nfiles > 1 {
		// a class that every file of the workspace declares: each declaration is reported as a duplicate, with the
		// other declarations as related locations
		raw("---@class C04SharedDupCls")
		raw(fmt.Sprintf("local %sShared = {}", pre))
		raw(fmt.Sprintf("print(%sShared)", pre))
		o := fmt.Sprintf("f%d", (idx+1)%nfiles)
		raw(fmt.Sprintf("---@type %sAliasT", o), o+"AliasT")
		raw(fmt.Sprintf("local %styped = 1", pre))
		raw(fmt.Sprintf("---@param %sarg1 %sCls", pre, o), o+"Cls")
		raw(fmt.Sprintf("---@return %sAliasT", o), o+"AliasT")
		raw(fmt.Sprintf("local function %sannotated(%sarg1) return %styped end", pre, pre, pre))
		raw(fmt.Sprintf("print(%sannotated(nil))", pre))
	}
	// Lua 5.4 attributes on the first and on later names of a declaration list
	emit(nx(), fmt.Sprintf("local %sca <const>, %scb <const>, %scc, %scd<close> = 1, 2, 3, nil", pre, pre, pre, pre))
	emit(nx(), fmt.Sprintf("print(%sca, %scb, %scc, %scd)", pre, pre, pre, pre))
	// strings and comments inside the statement itself, between identifiers
	emit(nx(), fmt.Sprintf("local %sinl = \"é\\t😀\" .. %salpha .. [[x]] .. %sbeta --[[ 中 ]] .. %sGlob.field", pre, pre, pre, pre))
	emit(nx(), fmt.Sprintf("print(%sinl, '\\'', %salpha, \"\\u{1F600}\", %sbeta, [==[ ]] ]==], %sinl)", pre, pre, pre, pre))
	// the file is also a module: it returns a table whose members the next file reaches through the variable that holds
	// require's result (members of required modules are matched by a path of their own in find-references / rename)
	emit(nx(), fmt.Sprintf("local %sMod = {}", pre))
	emit(nx(), fmt.Sprintf("function %sMod.%smodfn(%smq) return %smq end", pre, pre, pre, pre))
	emit(nx(), fmt.Sprintf("%sMod.%smodval = 7", pre, pre))
	emit(nx(), fmt.Sprintf("print(%sMod.%smodfn(%sMod.%smodval))", pre, pre, pre, pre))
	if nfiles > 1 {
		o := fmt.Sprintf("f%d", (idx+1)%nfiles)
		emit(nx(), fmt.Sprintf("local %sreq = require(\"c%d\")", pre, (idx+1)%nfiles))
		emit(nx(), fmt.Sprintf("print(%sreq.%smodfn(1), %sreq.%smodval)", pre, o, pre, o))
		emit(nx(), fmt.Sprintf("%sreq.%smodval = %sreq.%smodfn(2)", pre, o, pre, o))
	}
	if r.Chance(1, 4) {
		// a near-valid tail: one syntax error at the end of the file
		sb.WriteString("local " + pre + "broken = (" + le)
	} else {
		sb.WriteString("return " + pre + "Mod" + le)
	}
	return c04File{Rel: fmt.Sprintf("c%d.lua", idx), Text: sb.String(), LineCls: cls, Anno: anno}
}

var identRe = regexp.MustCompile(`^[A-Za-z_][A-Za-z0-9_]*$`)

func runC04(c *Ctx) {
	nWS := c.N(150, 4000)
	root := NewRng(c.Seed).Fork(4)
	parallel(nWS, 14, func(i int) {
		r := root.Fork(uint64(i))
		le := []string{"\n", "\r\n", "\r"}[r.Intn(3)]
		var files []c04File
		fm := map[string]string{}
		nf := r.Range(1, 3)
		for k := 0; k < nf; k++ {
			f := c04GenFile(r, k, le, nf)
			files = append(files, f)
			fm[f.Rel] = f.Text
		}
		c.Eval(1)
		c04Check(c, files, fm, le, fmt.Sprintf("c04w%d", i))
		if i < 2 {
			c.Sample(map[string]interface{}{"files": fm})
		}
	})
	c.Finish("files of one-line statements (declarations, uses, functions, parameters, loops, table members, statements that trigger diagnostics 2/3/4/13/17), each "+
		"preceded on its line by a prefix of one of 26 classes (tabs, short strings with every escape form and 2/3/4-byte characters, line continuations, long strings and "+
		"comments of levels 0-3 ending on the line) and rendered with LF, CRLF or CR; every range of every diagnostic, definition, references, highlight, rename, "+
		"documentSymbol and workspace/symbol answer is checked against the client's own text. distinct_nontrivial = distinct (file text, range-bearing answer) checked", 300)
}

func c04Check(c *Ctx, files []c04File, fm map[string]string, le, tag string) {
	ws := c.NewWorkspace(fm)
	defer ws.Remove()
	srv, err := StartServer(ServerOpts{Root: ws.Root, Tag: tag})
	if err != nil {
		c.Inconclusive("server failed (C01's business): " + err.Error())
		if srv != nil {
			srv.Close()
		}
		return
	}
	defer srv.Close()
	byRel := map[string]*c04File{}
	for i := range files {
		byRel[files[i].Rel] = &files[i]
		srv.DidOpen(ws.URI(files[i].Rel), files[i].Text)
	}
	if err := srv.Fence(); err != nil {
		c.Inconclusive("server died on open (C01's business)")
		return
	}
	leName := map[string]string{"\n": "LF", "\r\n": "CRLF", "\r": "CR"}[le]
	// classOf: prefix class of the line a position is on (the statement's prefix), "" when unknown
	classOf := func(rel string, line int) string {
		f := byRel[rel]
		if f == nil {
			return "other-file"
		}
		if cl, ok := f.LineCls[line]; ok {
			return cl
		}
		return "continuation-line"
	}
	// checkRange: clause (1) and, when want != "", clause (2)
	checkRange := func(kind, rel string, rg Range, want string, ctx string) {
		f := byRel[rel]
		if f == nil {
			c.Report("range-in-unknown-file|"+kind, fmt.Sprintf("%s refers to %s which is not a workspace file", kind, rel), map[string]interface{}{"files": fm})
			return
		}
		c.Count("ranges_checked", 1)
		c.Count("ranges_"+kind, 1)
		c.Distinct(f.Text + kind + rg.String())
		t := &RText{B: []byte(f.Text)}
		cl := classOf(rel, rg.Start.Line)
		witness := map[string]interface{}{"files": fm, "file": rel, "range": rg, "kind": kind, "context": ctx}
		bad := ""
		if rg.Start.Line > rg.End.Line || (rg.Start.Line == rg.End.Line && rg.Start.Character > rg.End.Character) {
			bad = "start-after-end"
		} else if rg.Start.Line < 0 || rg.End.Line >= t.Lines() {
			bad = "line-outside-document"
		} else if rg.Start.Character > t.LineLen16(rg.Start.Line) || rg.End.Character > t.LineLen16(rg.End.Line) {
			bad = "character-beyond-line-end"
		}
		if bad != "" {
			c.Report(fmt.Sprintf("range-malformed|%s|%s|prefix:%s", kind, bad, cl),
				fmt.Sprintf("%s range %v in %s (%s, %s line endings): %s; line text %q", kind, rg, rel, ctx, leName, bad, truncate(lineText(f.Text, rg.Start.Line), 120)), witness)
			return
		}
		if want == "" {
			return
		}
		got, ok := sliceRange([]byte(f.Text), rg)
		c.Count("named_ranges_checked", 1)
		if strings.HasPrefix(kind, "documentSymbol") || kind == "workspaceSymbol" {
			// a symbol's ranges may span the whole declaration (LSP allows selectionRange == range); what is
			// required is that they contain the declared name
			if ok && regexp.MustCompile(`\b`+regexp.QuoteMeta(want)+`\b`).MatchString(got) {
				return
			}
		}
		if !ok || got != want {
			c.Report(fmt.Sprintf("range-does-not-cover-name|%s|prefix:%s", kind, cl),
				fmt.Sprintf("%s range %v in %s should cover %q but covers %q (%s, %s line endings); line %q", kind, rg, rel, want, truncate(got, 60), ctx, leName, truncate(lineText(f.Text, rg.Start.Line), 120)), witness)
		}
	}
	// diagnostics
	nameInMsg := regexp.MustCompile(`var not define: (\w+)|^.*\], (\w+) declared and not used|duplicate var:'(\w+)'`)
	dupTypeMsg := regexp.MustCompile(`duplicate annotate type: (\w+)`)
	checkDiags := func(phase string) {
		for u, ds := range srv.View() {
			rel := ws.Rel(u)
			for _, d := range ds {
				want := ""
				if d.Type == 2 || d.Type == 3 || d.Type == 4 || d.Type == 13 || d.Type == 17 {
					if m := nameInMsg.FindStringSubmatch(d.Message); m != nil {
						for _, g := range m[1:] {
							if g != "" {
								want = g
							}
						}
					}
				}
				checkRange(fmt.Sprintf("diagnostic-type%d%s", d.Type, phase), rel, d.Range, want, d.Message)
				for _, ri := range d.Related {
					// the related locations of a duplicate-type warning are the other declarations of that name
					rwant := ""
					if m := dupTypeMsg.FindStringSubmatch(d.Message); m != nil {
						rwant = m[1]
						c.Count("related_locations_of_duplicate_types_checked", 1)
					}
					checkRange("diagnostic-related"+phase, ws.Rel(ri.Location.URI), ri.Location.Range, rwant, d.Message)
				}
			}
		}
	}
	checkDiags("")
	fail := func() {
		srv.WaitDeath(5 * time.Second)
		c.Inconclusive(fmt.Sprintf("server stopped answering (C01's business); witness %s", c.CrashWitness(srv, fm)))
	}
	for fi := range files {
		f := &files[fi]
		uri := ws.URI(f.Rel)
		src := []byte(f.Text)
		pr := RParse(src)
		for _, t := range pr.Lex.Toks {
			if t.K != TName {
				continue
			}
			// variable-like identifiers only: members resolve heuristically (C12-K3); here positions matter
			prev := ""
			if t.Idx > 0 {
				prev = pr.Lex.Toks[t.Idx-1].Text
			}
			if (prev == "." && !strings.Contains(t.Val, "mod")) || prev == ":" || luaBuiltins[t.Val] || t.Val == "field" || t.Val == "other" {
				continue // (members of a module table - f<i>modfn, f<i>modval - are queried)
			}
			p := posAt(src, t.Off)
			ctx := fmt.Sprintf("query on %s at %v", t.Val, p)
			locs, _, err := srv.Definition(uri, p.Line, p.Character)
			if err != nil {
				fail()
				return
			}
			for _, l := range locs {
				wantDef := t.Val
				if prev == "." {
					// a member the tool cannot resolve answers with the declaration of the table variable (a documented
					// fallback): the answer must be a well-formed range of its document, whatever it names
					wantDef = ""
				}
				checkRange("definition", ws.Rel(l.URI), l.Range, wantDef, ctx)
			}
			refs, _, err := srv.References(uri, p.Line, p.Character)
			if err != nil {
				fail()
				return
			}
			for _, l := range refs {
				checkRange("references", ws.Rel(l.URI), l.Range, t.Val, ctx)
			}
			hl, _, err := srv.Highlight(uri, p.Line, p.Character)
			if err != nil {
				fail()
				return
			}
			for _, h := range hl {
				checkRange("highlight", f.Rel, h.Range, t.Val, ctx)
			}
			we, _, err := srv.Rename(uri, p.Line, p.Character, "renamedC04")
			if err != nil {
				fail()
				return
			}
			if we != nil {
				for u, es := range we.Changes {
					for _, e := range es {
						checkRange("rename-edit", ws.Rel(u), e.Range, t.Val, ctx)
					}
				}
			}
		}
		for _, as := range f.Anno {
			for _, col := range []int{as.Col, as.Col + len(as.Name)} {
				locs, _, err := srv.Definition(uri, as.Line, col)
				if err != nil {
					fail()
					return
				}
				c.Count("annotation_type_definition_queries", 1)
				for _, l := range locs {
					checkRange("definition-of-annotation-type", ws.Rel(l.URI), l.Range, as.Name, fmt.Sprintf("query on annotation type %s at %d:%d", as.Name, as.Line, col))
				}
			}
		}
		syms, _, err := srv.DocumentSymbol(uri)
		if err != nil {
			fail()
			return
		}
		var walk func(l []DocSymbol)
		walk = func(l []DocSymbol) {
			for _, s := range l {
				nm := s.Name
				if i := strings.Index(nm, "("); i >= 0 {
					nm = nm[:i]
				}
				if i := strings.LastIndexAny(nm, ".:"); i >= 0 {
					nm = nm[i+1:]
				}
				want := ""
				if identRe.MatchString(nm) {
					want = nm
				}
				checkRange("documentSymbol-selectionRange", f.Rel, s.SelectionRange, want, "symbol "+s.Name)
				checkRange("documentSymbol-range", f.Rel, s.Range, "", "symbol "+s.Name)
				// the full range must contain the selection range
				if !(posLE(s.Range.Start, s.SelectionRange.Start) && posLE(s.SelectionRange.End, s.Range.End)) {
					c.Report(fmt.Sprintf("symbol-range-does-not-contain-selection|prefix:%s", classOf(f.Rel, s.SelectionRange.Start.Line)),
						fmt.Sprintf("documentSymbol %s: range %v does not contain selectionRange %v", s.Name, s.Range, s.SelectionRange), map[string]interface{}{"files": fm, "file": f.Rel})
				}
				walk(s.Children)
			}
		}
		walk(syms)
	}
	var names []string
	for fi := range files {
		pre := fmt.Sprintf("f%d", fi)
		names = append(names, pre+"Glob", pre+"Func", pre+"Late", pre+"Tab", pre+"Dup")
	}
	sort.Strings(names)
	for _, q := range names {
		sy, _, err := srv.WorkspaceSymbol(q)
		if err != nil {
			fail()
			return
		}
		for _, s := range sy {
			want := ""
			nm := s.Name
			if i := strings.Index(nm, "("); i >= 0 {
				nm = nm[:i]
			}
			if identRe.MatchString(nm) {
				want = nm
			}
			checkRange("workspaceSymbol", ws.Rel(s.Location.URI), s.Location.Range, want, "symbol "+s.Name)
		}
	}
	// an edit as a multi-cursor rename makes it: one didChange notification whose changes replace every occurrence of a
	// local of the first file by a longer name, bottom occurrence first. Positions are those of the client's new text.
	{
		f := &files[0]
		uri := ws.URI(f.Rel)
		old, nw := "f0alpha", "f0alphaRenamedInPlace"
		t := NewRText(f.Text)
		var toks []*Tok
		for _, tk := range RLex([]byte(f.Text)).Toks {
			if tk.K == TName && tk.Val == old {
				toks = append(toks, tk)
			}
		}
		var chs []Change
		for i := len(toks) - 1; i >= 0; i-- {
			rg := Range{t.PosAt(toks[i].Off), t.PosAt(toks[i].End)}
			chs = append(chs, Change{Range: &rg, Text: nw})
		}
		for _, ch := range chs {
			t.Splice(*ch.Range, ch.Text)
		}
		if len(chs) >= 2 {
			srv.DidChange(uri, 2, chs)
			f.Text = t.String()
			fm[f.Rel] = f.Text
			c.Count("multi_change_edits", 1)
			src := []byte(f.Text)
			for _, tk := range RLex(src).Toks {
				if tk.K != TName || tk.Val != nw {
					continue
				}
				p := posAt(src, tk.Off)
				ctx := fmt.Sprintf("query on %s at %v after a multi-change edit", tk.Val, p)
				locs, _, err := srv.Definition(uri, p.Line, p.Character)
				if err != nil {
					fail()
					return
				}
				for _, l := range locs {
					checkRange("definition-after-multi-change-edit", ws.Rel(l.URI), l.Range, nw, ctx)
				}
				hl, _, err := srv.Highlight(uri, p.Line, p.Character)
				if err != nil {
					fail()
					return
				}
				for _, h := range hl {
					checkRange("highlight-after-multi-change-edit", f.Rel, h.Range, nw, ctx)
				}
			}
			syms, _, err := srv.DocumentSymbol(uri)
			if err != nil {
				fail()
				return
			}
			for _, sy := range syms {
				if strings.HasPrefix(sy.Name, "f0") && identRe.MatchString(sy.Name) {
					checkRange("documentSymbol-after-multi-change-edit", f.Rel, sy.SelectionRange, sy.Name, "symbol "+sy.Name)
				}
			}
			// the document is closed without saving: its text is the file on disk again. Answers asked from another
			// document that reach into it name positions of that text
			if len(files) > 1 {
				orig := ws.Files[f.Rel]
				srv.DidClose(uri)
				f.Text = orig
				fm[f.Rel] = orig
				c.Count("closes_with_unsaved_edits", 1)
				o := &files[len(files)-1] // it uses f0Glob, f0Func and f0Tab (the file after it is file 0)
				ouri := ws.URI(o.Rel)
				osrc := []byte(o.Text)
				for _, tk := range RLex(osrc).Toks {
					if tk.K != TName || (tk.Val != "f0Glob" && tk.Val != "f0Func" && tk.Val != "f0Tab") {
						continue
					}
					p := posAt(osrc, tk.Off)
					ctx := fmt.Sprintf("query on %s at %v in %s after %s was closed with unsaved edits", tk.Val, p, o.Rel, f.Rel)
					refs, _, err := srv.References(ouri, p.Line, p.Character)
					if err != nil {
						fail()
						return
					}
					for _, l := range refs {
						checkRange("references-after-close-with-unsaved-edits", ws.Rel(l.URI), l.Range, tk.Val, ctx)
					}
					we, _, err := srv.Rename(ouri, p.Line, p.Character, "renamedAfterClose")
					if err != nil {
						fail()
						return
					}
					if we != nil {
						for u, es := range we.Changes {
							for _, e := range es {
								checkRange("rename-edit-after-close-with-unsaved-edits", ws.Rel(u), e.Range, tk.Val, ctx)
							}
						}
					}
				}
			}
		}
	}
	// last: a file that declares the shared class moves all its lines down by one on disk (the document is closed, the change
	// is announced by the file watcher): the warnings of the OTHER files relate to the declaration at its new place
	if len(files) > 1 {
		b := &files[len(files)-1]
		srv.DidClose(ws.URI(b.Rel))
		moved := "-- moved down" + le + ws.Files[b.Rel]
		ws.Write(b.Rel, moved)
		b.Text = moved
		fm[b.Rel] = moved
		srv.Notify("workspace/didChangeWatchedFiles", map[string]interface{}{"changes": []interface{}{map[string]interface{}{"uri": ws.URI(b.Rel), "type": 2}}})
		if srv.Fence() != nil {
			fail()
			return
		}
		c.Count("files_moved_down_on_disk", 1)
		checkDiags("-after-another-file-moved")
	}
}

func posLE(a, b Position) bool {
	return a.Line < b.Line || (a.Line == b.Line && a.Character <= b.Character)
}

func lineText(text string, line int) string {
	b := []byte(text)
	st := lineStarts(b)
	if line < 0 || line >= len(st) {
		return ""
	}
	return string(b[st[line]:lineContentEnd(b, st[line])])
}
