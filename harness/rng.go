package main

// Deterministic PRNG owned by the harness (splitmix64). Case lists are a pure
// function of (seed, tier); no wall clock enters any generator or oracle.

type Rng struct{ s uint64 }

func NewRng(seed uint64) *Rng { return &Rng{s: seed*0x9E3779B97F4A7C15 + 0x1234567} }

func (r *Rng) U64() uint64 {
	r.s += 0x9E3779B97F4A7C15
	z := r.s
	z = (z ^ (z >> 30)) * 0xBF58476D1CE4E5B9
	z = (z ^ (z >> 27)) * 0x94D049BB133111EB
	return z ^ (z >> 31)
}

// Intn returns a value in [0,n).
func (r *Rng) Intn(n int) int {
	if n <= 0 {
		return 0
	}
	return int(r.U64() % uint64(n))
}

// Range returns a value in [lo,hi].
func (r *Rng) Range(lo, hi int) int {
	if hi <= lo {
		return lo
	}
	return lo + r.Intn(hi-lo+1)
}

func (r *Rng) Bool() bool { return r.U64()&1 == 1 }

// Chance returns true with probability num/den.
func (r *Rng) Chance(num, den int) bool { return r.Intn(den) < num }

func (r *Rng) Pick(xs []string) string { return xs[r.Intn(len(xs))] }

// Fork derives an independent stream labelled by k. It does not advance r: the derived stream is a pure function of
// r's current state and k, so worker goroutines may fork a shared root in any order and still get the same streams.
func (r *Rng) Fork(k uint64) *Rng {
	c := Rng{s: r.s}
	return NewRng(c.U64() ^ (k * 0xD6E8FEB86659FD93))
}

func (r *Rng) Perm(n int) []int {
	p := make([]int, n)
	for i := range p {
		p[i] = i
	}
	for i := n - 1; i > 0; i-- {
		j := r.Intn(i + 1)
		p[i], p[j] = p[j], p[i]
	}
	return p
}
