package main

// C14 — completion offers the names that are in scope at the cursor, and only those.
// Monitor: labels of textDocument/completion at probe sites `print(<prefix>)` inserted at statement
// boundaries of generated programs vs R-bind's visible-name set at that position.

import (
	"fmt"
	"sort"
	"strings"
)

type c14Site struct {
	Off   int    // byte offset in the original text where the probe line is inserted
	Class string // first-statement / after-declaration / last-statement / on-end-line / in-nested-function ...
	Same  bool   // insert on the same line as the following token (e.g. before `end`)
	After bool   // insert after the token ending at Off, on the same line
}

// c14Sites enumerates insertion points at statement boundaries of every block.
func c14Sites(f *SFile) []c14Site {
	var out []c14Site
	var walkBlock func(b *Node, closer *Tok, depth int, inFunc bool)
	var walkExp func(e *Node, depth int)
	walkExp = func(e *Node, depth int) {
		if e == nil {
			return
		}
		if e.K == EFunction {
			walkBlock(e.Fn.Body, e.Fn.Last, depth+1, true)
			return
		}
		walkExp(e.A, depth)
		walkExp(e.B, depth)
		walkExp(e.C, depth)
		for _, x := range e.List {
			walkExp(x, depth)
		}
	}
	walkBlock = func(b *Node, closer *Tok, depth int, inFunc bool) {
		if b == nil {
			return
		}
		cls := func(base string) string {
			if inFunc {
				return base + "-in-function"
			}
			if depth > 0 {
				return base + "-in-block"
			}
			return base
		}
		for i, s := range b.List {
			if s.K == SReturn || s.First == nil {
				continue
			}
			c := "before-statement"
			if i == 0 {
				c = "first-statement"
			} else if p := b.List[i-1]; p.K == SLocal || p.K == SLocalFunction {
				c = "after-declaration"
			}
			out = append(out, c14Site{Off: s.First.Off, Class: cls(c)})
			if s.K == SLocal && s.Last != nil {
				out = append(out, c14Site{Off: s.First.Off, Class: cls("same-line-before-declaration"), Same: true})
				out = append(out, c14Site{Off: s.Last.End, Class: cls("same-line-after-declaration"), After: true})
			}
		}
		if closer != nil && (len(b.List) == 0 || b.List[len(b.List)-1].K != SReturn) {
			out = append(out, c14Site{Off: closer.Off, Class: cls("last-statement")})
			out = append(out, c14Site{Off: closer.Off, Class: cls("on-end-line"), Same: true})
		}
		for _, s := range b.List {
			switch s.K {
			case SDo, SWhile, SForNum, SForIn:
				walkBlock(s.Body, s.Last, depth+1, inFunc)
			case SRepeat:
				// closer is `until`: find the token after the body
				var until *Tok
				if s.Body.Last != nil && s.Body.Last.Idx+1 < len(f.Parse.Lex.Toks) {
					until = f.Parse.Lex.Toks[s.Body.Last.Idx+1]
					if len(s.Body.List) == 0 {
						until = f.Parse.Lex.Toks[s.First.Idx+1]
					}
				}
				if until != nil && until.Text == "until" {
					walkBlock(s.Body, until, depth+1, inFunc)
				}
			case SIf:
				// closers of the branches are elseif/else/end tokens: use the token following each block
				blocks := append(append([]*Node{}, s.Blocks...), s.Body)
				for _, bl := range blocks {
					if bl == nil {
						continue
					}
					var cl *Tok
					if len(bl.List) > 0 && bl.Last != nil && bl.Last.Idx+1 < len(f.Parse.Lex.Toks) {
						cl = f.Parse.Lex.Toks[bl.Last.Idx+1]
					}
					if cl != nil && (cl.Text == "end" || cl.Text == "else" || cl.Text == "elseif") {
						walkBlock(bl, cl, depth+1, inFunc)
					} else {
						walkBlock(bl, nil, depth+1, inFunc)
					}
				}
			case SFunction, SLocalFunction:
				walkBlock(s.Fn.Body, s.Fn.Last, depth+1, true)
			}
			walkExp(s.A, depth)
			walkExp(s.B, depth)
			walkExp(s.C, depth)
			for _, x := range s.List {
				walkExp(x, depth)
			}
			for _, x := range s.List2 {
				walkExp(x, depth)
			}
		}
	}
	walkBlock(f.Parse.Chunk, nil, 0, false)
	// end of file
	out = append(out, c14Site{Off: len(f.Src), Class: "end-of-file"})
	return out
}

var c14Contexts = []string{"print(%s)", "print(%s)", "print(%s)", "local zq = \"id:\"..%s", "local zq = \"id:\" .. %s", "local zq = zq0 ..%s", "local zq = zq0..%s",
	"local zq = {%s}", "local zq = { k = %s }", "local zq = -%s", "local zq = not %s", "local zq = 1+%s", "local zq = 1 + %s", "local zq = (%s)", "zq0(1,%s)", "zq0(1, %s)",
	"local zq = zq0[%s]", "if %s then end", "local zq = #%s", "local zq = 1<%s", "local zq = zq0 and %s", "zq0 = %s", "local zq = zq0(%s)"}

func runC14(c *Ctx) {
	nWS := c.N(600, 8000)
	probesPerFile := c.N(14, 30)
	root := NewRng(c.Seed).Fork(14)
	parallel(nWS, 14, func(wi int) {
		r := root.Fork(uint64(wi))
		// half of the workspaces keep one statement per line; the others join lines, so that blocks open and close on the
		// cursor's line (one-line ifs, two callbacks in one call, sibling blocks on one line)
		join := []int{0, 0, 50, 100}[r.Intn(4)]
		sw := GenScopeWS(r, ScopeCfg{Unique: true, NoMulti: true, NFiles: r.Range(1, 3), Depth: r.Range(2, 4), JoinPct: join, Zoo: r.Fork(0x7a6f6f).Chance(1, 4)})
		c.Count(fmt.Sprintf("workspaces_line_join_%d_percent", join), 1)
		// globals defined through the global table (documented as plain globals): _G.x = v, _G["x"] = v, function _G.x() end
		viaG := map[string]bool{}
		if r.Bool() {
			files := sw.FileMap()
			for fi, f := range sw.Files {
				a, b, cc := fmt.Sprintf("f%dw9ga", fi), fmt.Sprintf("f%dw9gb", fi), fmt.Sprintf("f%dw9gc", fi)
				files[f.Rel] = f.Text + fmt.Sprintf("\n_G.%s = 1\n_G[\"%s\"] = 2\nfunction _G.%s(p)\n  return p\nend\n", a, b, cc)
				viaG[a], viaG[b], viaG[cc] = true, true, true
			}
			if sw2, ok := ScopeWSFromFiles(files); ok {
				sw = sw2
				c.Count("workspaces_with_globals_defined_through_G", 1)
			} else {
				viaG = map[string]bool{}
			}
		}
		// every file starts with a few locals whose names begin with a reserved word (index, thenable, orbit, ...): a prefix
		// of theirs can be exactly that word
		{
			files := sw.FileMap()
			rk := r.Fork(0x6b7764)
			for fi, f := range sw.Files {
				var nms []string
				for _, i := range rk.Perm(len(c14KeywordNames))[:4] {
					nms = append(nms, fmt.Sprintf("%s%d", c14KeywordNames[i], fi))
				}
				files[f.Rel] = "local " + strings.Join(nms, ", ") + " = 1, 2, 3, 4\nprint(" + strings.Join(nms, ", ") + ")\n" + files[f.Rel]
			}
			if sw2, ok := ScopeWSFromFiles(files); ok {
				sw2.Roots, sw2.Late = sw.Roots, sw.Late
				sw = sw2
			}
		}
		// a multi-root workspace: the files are spread over two workspace folders that lie next to each other
		if len(sw.Files) >= 2 && r.Fork(0x726f6f74).Chance(1, 4) {
			sw.Reroot([]string{"rootA", "rootB"})
			c.Count("multi_root_workspaces", 1)
		} else if len(sw.Files) >= 2 && r.Fork(0x73707264).Chance(1, 4) {
			sw.Spread()
			c.Count("workspaces_with_same_named_sub_directories", 1)
		}
		c.Eval(1)
		ws, srv, err := startScopeServer(c, sw, fmt.Sprintf("c14w%d", wi))
		if err != nil {
			c.Inconclusive("server failed (C01's business): " + err.Error())
			return
		}
		defer ws.Remove()
		defer srv.Close()
		ver := 1
		localNames := map[string]bool{}
		for _, f := range sw.Files {
			for _, d := range f.Bind.Decls {
				localNames[d.Name] = true
			}
		}
		longRounds := 0
		if r.Fork(0x6c6f6e67).Chance(1, 8) {
			longRounds = r.Fork(0x6c6f6e68).Range(20, 26)
			c.Count("workspaces_after_a_long_editing_session", 1)
		}
		for _, f := range sw.Files {
			lazyOpen(srv, ws, sw, f)
			if longRounds > 0 {
				// the document has been edited and saved many times before the completions are asked
				if !sw.LazyOpen {
					longSession(srv, ws, f.Rel, f.Text, longRounds)
				}
				ver = 3000
			}
			sites := c14Sites(f)
			if len(sites) == 0 {
				continue
			}
			// candidate names: every local-like declaration of the file and every workspace global
			var allNames []string
			for _, d := range f.Bind.Decls {
				if d.Tok != nil {
					allNames = append(allNames, d.Name)
				}
			}
			for g, defs := range sw.GlobalDefs {
				if len(defs) > 0 {
					allNames = append(allNames, g)
				}
			}
			for g := range viaG {
				allNames = append(allNames, g)
			}
			sort.Strings(allNames)
			if len(allNames) == 0 {
				continue
			}
			prevText := f.Text
			for p := 0; p < probesPerFile; p++ {
				st := sites[r.Intn(len(sites))]
				target := allNames[r.Intn(len(allNames))]
				if len(target) < 3 {
					continue
				}
				k := r.Range(2, len(target)-1) // a strict prefix: the probe word itself is a name use and gets offered back
				// one probe in four has the cursor inside a complete identifier (the whole name is in the text, the cursor
				// stands after its first k characters); for names that begin with a reserved word, k is often its length
				word := ""
				if r.Chance(1, 4) {
					word = target
					for _, kw := range c14KeywordNames {
						if strings.HasPrefix(target, kw) && r.Bool() {
							for _, w := range luaKeywordList {
								if strings.HasPrefix(kw, w) && len(w) >= 2 && len(w) < len(target) {
									k = len(w)
								}
							}
						}
					}
				}
				prefix := target[:k]
				if word == "" {
					word = prefix
				}
				// the expression context the prefix is typed in: call argument, operand glued to or spaced from an operator,
				// table constructor, index, condition
				ctx := c14Contexts[r.Intn(len(c14Contexts))]
				at := strings.Index(ctx, "%s")
				probe := ctx[:at] + word + ctx[at+2:]
				var newText string
				var cursor int
				cursor = st.Off + at + len(prefix)
				if st.After {
					newText = f.Text[:st.Off] + " " + probe + f.Text[st.Off:]
					cursor++
				} else if st.Same {
					newText = f.Text[:st.Off] + probe + " " + f.Text[st.Off:]
				} else {
					newText = f.Text[:st.Off] + probe + "\n" + f.Text[st.Off:]
				}
				pr := RParse([]byte(newText))
				if !pr.Valid() {
					c.Count("probe_sites_skipped_invalid", 1)
					continue
				}
				br := RBind(pr)
				if len(br.SemanticOnly()) > 0 {
					c.Count("probe_sites_skipped_semantic", 1)
					continue
				}
				// expected sets
				must := map[string]bool{}
				mustNot := map[string]bool{}
				for _, d := range br.Decls {
					if d.Tok == nil || !strings.HasPrefix(d.Name, prefix) {
						continue
					}
					// visibility is judged where the prefix starts: the cursor itself sits at the end of that token, which can be
					// the very end of the enclosing block's last statement
					at0 := cursor - len(prefix)
					visible := d.VisFrom <= at0 && at0 < d.VisTo
					inOwnStatement := d.Stat != nil && d.Stat.K == SLocal && d.Stat.First.Off <= cursor && cursor <= d.Stat.Last.End
					switch {
					case inOwnStatement:
						// a local inside its own initialiser: neither required nor forbidden
					case visible:
						must[d.Name] = true
					default:
						mustNot[d.Name] = true
					}
				}
				for g, defs := range sw.GlobalDefs {
					// with workspace-unique names a global can only share its name with a local through a use inside that
					// local's own initialiser / for header (which Lua binds to the global): C05-K1's class, not asserted here
					if len(defs) > 0 && strings.HasPrefix(g, prefix) && !localNames[g] {
						must[g] = true
					}
				}
				for g := range viaG {
					if strings.HasPrefix(g, prefix) {
						must[g] = true
					}
				}
				// a name that also occurs as a free (global) name somewhere - e.g. a use of n inside the initialiser
				// of `local n` is, per Lua, the global n - may legitimately be offered as that global
				for n := range br.Globals {
					delete(mustNot, n)
				}
				for _, of := range sw.Files {
					if of != f {
						for n := range of.Bind.Globals {
							delete(mustNot, n)
						}
					}
				}
				// the probe word itself is a (free) name use in the document: not asserted either way
				delete(must, prefix)
				delete(mustNot, prefix)
				if word != prefix {
					c.Count("probes_with_cursor_inside_an_identifier", 1)
					if luaKeywords[prefix] {
						c.Count("probes_whose_prefix_is_a_reserved_word", 1)
					}
				}
				// a name that is both (cannot happen with unique names, but stay safe)
				for n := range must {
					delete(mustNot, n)
				}
				ver++
				uri := ws.URI(f.Rel)
				srv.DidChangeFull(uri, ver, newText)
				pos := posAt([]byte(newText), cursor)
				items, _, err := srv.Completion(uri, pos.Line, pos.Character, 1, "")
				if err != nil {
					c.Inconclusive(fmt.Sprintf("server stopped answering (C01's business); witness %s", c.CrashWitness(srv, sw.FileMap())))
					return
				}
				c.Count("completion_requests", 1)
				labels := map[string]bool{}
				for _, it := range items {
					// after the length operator the tool offers the names with the `#` glued on (`#name`), by design
					labels[strings.TrimPrefix(it.Label, "#")] = true
				}
				c.Distinct(newText + fmt.Sprint(cursor))
				// syntactic context of the probe (for signatures): class of the prefix identifier as an occurrence
				ctxCls := "plain"
				if inForHeaderFuncLit(pr.Chunk, cursor) {
					ctxCls = "within-function-literal-in-for-header" // decides the scope found for the cursor whatever is nested inside
				} else if po := br.ByOff[cursor-len(prefix)]; po != nil {
					nf := &SFile{Rel: f.Rel, Text: newText, Src: []byte(newText), Parse: pr, Bind: br}
					cc := occClass(nf, po)
					if cc != "plain-read" {
						ctxCls = cc
					}
				}
				witness := map[string]interface{}{"text": newText, "position": pos, "prefix": prefix, "site_class": st.Class, "labels": sortedBoolKeys(labels), "previous_text": prevText, "original_text": f.Text}
				prevText = newText
				for n := range must {
					c.Count("must_names_checked", 1)
					if !labels[n] {
						kind := "global"
						for _, d := range br.Decls {
							if d.Name == n {
								kind = d.Kind.String()
							}
						}
						c.Report(fmt.Sprintf("visible-name-not-offered|%s|%s|ctx:%s", kind, st.Class, ctxCls),
							fmt.Sprintf("completion of %q at %s:%v (%s) does not offer the visible %s %s", prefix, f.Rel, pos, st.Class, kind, n), witness)
					}
				}
				for n := range mustNot {
					c.Count("must_not_names_checked", 1)
					if labels[n] {
						why := "declared-later"
						for _, d := range br.Decls {
							if d.Name == n && d.VisFrom <= cursor-len(prefix) {
								why = "block-not-enclosing-cursor"
							}
						}
						c.Report(fmt.Sprintf("invisible-local-offered|%s|ctx:%s", why, ctxCls),
							fmt.Sprintf("completion of %q at %s:%v (%s) offers %s which is not visible there (%s)", prefix, f.Rel, pos, st.Class, n, why), witness)
					}
				}
			}
			// restore the original text
			ver++
			srv.DidChangeFull(ws.URI(f.Rel), ver, f.Text)
		}
		if wi < 1 {
			c.Sample(map[string]interface{}{"files": sw.FileMap()})
		}
	})
	c.Finish("generated programs with workspace-unique names; probe statements containing `<prefix>` in one of 20 expression contexts (call argument, operand glued to or spaced from `..`, `+`, `<`, unary operators, table constructor, index, condition, assignment) are inserted (as an unsaved edit of the open, still valid document) at statement "+
		"boundaries of every block: first statement, right after a declaration, last statement, on the line of `end`, inside nested functions and blocks, end of file; "+
		"completion (triggerKind 1) right after the prefix must offer every local/parameter/loop variable visible there per R-bind and every workspace global with that prefix (including, in half of the workspaces, globals defined as _G.x = v, _G[`x`] = v and function _G.x() end), "+
		"and no local that is declared later or in a block not enclosing the cursor. distinct_nontrivial = distinct (document text, cursor) probed", 200)
}

func sortedBoolKeys(m map[string]bool) []string {
	var ks []string
	for k := range m {
		ks = append(ks, k)
	}
	sort.Strings(ks)
	if len(ks) > 60 {
		ks = ks[:60]
	}
	return ks
}

// names that begin with a reserved word
var c14KeywordNames = []string{"android", "breaker", "done", "elsewhere", "ending", "falsey", "format", "functional", "gotox", "iffy", "index", "locale", "nilable",
	"notice", "orbit", "repeater", "returned", "thenable", "truely", "untilx", "whiled"}

var luaKeywordList = []string{"and", "break", "do", "else", "elseif", "end", "false", "for", "function", "goto", "if", "in", "local", "nil", "not", "or", "repeat", "return",
	"then", "true", "until", "while"}
