package main

// C07 — undefined-variable (2/3) and unused-local (4) warnings agree with the actual bindings.
// Monitor: type 2/3/4/17 entries of the client view vs R-bind's unbound reads and never-read locals,
// with three-valued expectations (MUST / MUST-NOT / DON'T-CARE).

import (
	"encoding/json"
	"fmt"
	"sort"
	"strings"
)

// idiomContext: the occurrence sits where LuaHelper deliberately suppresses the undefined-variable report: DON'T-CARE.
// The tool's idioms (analysis_exp.go cgUnopExp / cgBinopExp, analysis_stat.go cgAssignStat) are
//   - inside the condition of an if / elseif: the operand of `not`, and the left operand of `== nil`;
//   - in the values of an assignment or local declaration: operands of `or` (x = x or v).
// Everything else - `not x` or `x == nil` in ordinary expressions, operands of and / ~= / other comparisons, plain
// names as conditions, while / until conditions - is asserted.
func c07IdiomContext(f *SFile, o *Occ) bool {
	found := false
	// mode: 0 = ordinary expression, 1 = inside an if condition, 2 = inside a value of an assignment / local
	var visit func(e *Node, mode int, inIdiom bool)
	visit = func(e *Node, mode int, inIdiom bool) {
		if e == nil || found {
			return
		}
		if e.K == EName && e.Tok == o.Tok {
			if inIdiom {
				found = true
			}
			return
		}
		if e.K == EFunction {
			// the flag of an enclosing if condition stays set while a function literal inside it is analysed
			c07VisitBlock(e.Fn.Body, visit, mode == 1)
			return
		}
		a, b := inIdiom, inIdiom
		switch e.K {
		case EBinop:
			switch e.Tok.Text {
			case "==":
				// (the tool looks through parentheses around the nil: `x == (nil)`)
				rhs := e.B
				for rhs != nil && rhs.K == EParen {
					rhs = rhs.A
				}
				if mode == 1 && rhs != nil && rhs.K == ENil {
					a = true
				}
			case "or":
				if mode == 2 {
					a, b = true, true
				}
			}
		case EUnop:
			if e.Tok.Text == "not" && mode == 1 {
				a = true
			}
		}
		visit(e.A, mode, a)
		visit(e.B, mode, b)
		visit(e.C, mode, inIdiom)
		for _, x := range e.List {
			visit(x, mode, inIdiom)
		}
	}
	c07VisitBlock(f.Parse.Chunk, visit, false)
	return found
}

// c07VisitBlock walks every statement of the block (all depths) and hands its expressions to visit with the mode of
// their position. sticky: the block belongs to a function literal written inside an if condition.
func c07VisitBlock(b *Node, visit func(e *Node, mode int, inIdiom bool), sticky bool) {
	base := 0
	if sticky {
		base = 1
	}
	visitBlockStats(b, func(s *Node) {
		switch s.K {
		case SIf:
			for _, cnd := range s.List {
				visit(cnd, 1, false)
			}
		case SLocal, SAssign:
			visit(s.A, base, false)
			visit(s.B, base, false)
			visit(s.C, base, false)
			for _, x := range s.List {
				visit(x, base, false)
			}
			for _, x := range s.List2 {
				m := 2
				if sticky {
					m = 1
				}
				visit(x, m, false)
			}
		default:
			visit(s.A, base, false)
			visit(s.B, base, false)
			visit(s.C, base, false)
			for _, x := range s.List {
				visit(x, base, false)
			}
			for _, x := range s.List2 {
				visit(x, base, false)
			}
		}
	}, nil)
}

// visitBlockStats calls fn on every statement of the chunk (all depths); expression visitors handle function literals via visitBlock.
func visitBlockStats(b *Node, fn func(s *Node), _ interface{}) {
	var walk func(b *Node)
	walk = func(b *Node) {
		if b == nil {
			return
		}
		for _, s := range b.List {
			fn(s)
			switch s.K {
			case SDo, SWhile, SRepeat, SForNum, SForIn:
				walk(s.Body)
			case SIf:
				for _, bl := range s.Blocks {
					walk(bl)
				}
				walk(s.Body)
			case SFunction, SLocalFunction:
				walk(s.Fn.Body)
			}
		}
	}
	walk(b)
}

// topLevelAssignIndex: statement index (in the chunk's top block) of a top-level write; -1 if the write is nested.
func c07TopStatIndex(f *SFile, t *Tok) (idx int, direct bool) {
	for i, s := range f.Parse.Chunk.List {
		if s.First != nil && s.Last != nil && t.Off >= s.First.Off && t.End <= s.Last.End {
			direct = (s.K == SAssign || (s.K == SFunction && len(s.Names) == 1 && !s.Flag)) && func() bool {
				if s.K == SFunction {
					return s.Names[0] == t
				}
				for _, v := range s.List {
					if v.K == EName && v.Tok == t {
						return true
					}
				}
				return false
			}()
			return i, direct
		}
	}
	return -1, false
}

type c07Planted struct {
	Files  map[string]string
	JSON   string // luahelper.json content ("" = client mode)
	Expect []c07Exp
}

type c07Exp struct {
	File string
	Name string // the identifier the diagnostic is about
	Line int    // 0-based line of the identifier occurrence
	Type int
	Must bool // true = MUST appear, false = MUST NOT appear
	Why  string
}

func c07PlantedCases() []c07Planted {
	var out []c07Planted
	base := map[string]string{
		"defs.lua": "GDefinedElsewhere = 1\nfunction GFuncElsewhere(a) return a end\nlocal function setter()\n  GOnlyInFunction = 2\nend\nsetter()\n",
		"main.lua": strings.Join([]string{
			"print(neverDefinedTop)",                         // 0: MUST 2
			"local function f1()",                            // 1
			"  return neverDefinedInner",                     // 2: MUST 2
			"end",                                            // 3
			"print(GDefinedElsewhere, GFuncElsewhere(1))",    // 4: MUST-NOT 2/3
			"print(GLaterHere)",                              // 5: MUST 3
			"GLaterHere = 5",                                 // 6
			"GEarlierHere = 6",                               // 7
			"print(GEarlierHere)",                            // 8: MUST-NOT
			"local function f2() return GLaterHere end",      // 9: MUST-NOT (read inside a function body)
			"local unusedPlain = 1",                          // 10: MUST 4
			"local usedInClosure = 2",                        // 11: MUST-NOT 4
			"local function f3() return usedInClosure end",   // 12
			"local onlyWritten = 3",                          // 13: MUST 4
			"onlyWritten = 4",                                // 14
			"repeat local seenByUntil = f1() until seenByUntil", // 15: MUST-NOT 4
			"local shadowTwin = 1",                           // 16: MUST 4 (never read: the inner one is)
			"do local shadowTwin = 2 print(shadowTwin) end",  // 17: MUST-NOT 4 on inner
			"local _ = 7",                                    // 18: MUST-NOT 4
			"local fnValue = function() end",                 // 19: MUST-NOT 4 (function value)
			"local function unusedLocalFunc() end",           // 20: MUST-NOT 4
			"for loopVar = 1, 2 do end",                      // 21: MUST-NOT 4
			"for k, v in pairs({}) do end",                   // 22: MUST-NOT 4
			"local function params(p1, p2) return p1 end",    // 23: MUST-NOT 4 on p2
			"print(f1, f2, f3, params)",                      // 24
		}, "\n") + "\n",
	}
	exp := []c07Exp{
		{"main.lua", "neverDefinedTop", 0, 2, true, "read of a name defined nowhere"},
		{"main.lua", "neverDefinedInner", 2, 2, true, "read inside a function of a name defined nowhere"},
		{"main.lua", "GDefinedElsewhere", 4, 2, false, "defined in another file"},
		{"main.lua", "GDefinedElsewhere", 4, 3, false, "defined in another file"},
		{"main.lua", "GFuncElsewhere", 4, 2, false, "function defined in another file"},
		{"main.lua", "GLaterHere", 5, 3, true, "top-level read, only definition is a later top-level assignment in the same file"},
		{"main.lua", "GLaterHere", 5, 2, false, "it is defined (later)"},
		{"main.lua", "GEarlierHere", 8, 2, false, "defined by an earlier statement"},
		{"main.lua", "GEarlierHere", 8, 3, false, "defined by an earlier statement"},
		{"main.lua", "GLaterHere", 9, 2, false, "read inside a function body, defined in the file"},
		{"main.lua", "GLaterHere", 9, 3, false, "read inside a function body, defined in the file"},
		{"main.lua", "unusedPlain", 10, 4, true, "never read"},
		{"main.lua", "usedInClosure", 11, 4, false, "read from a nested closure"},
		{"main.lua", "onlyWritten", 13, 4, true, "only assigned, never read"},
		{"main.lua", "seenByUntil", 15, 4, false, "read by the until condition"},
		{"main.lua", "shadowTwin", 16, 4, true, "outer twin is never read"},
		{"main.lua", "shadowTwin", 17, 4, false, "inner twin is read"},
		{"main.lua", "_", 18, 4, false, "underscore is exempt"},
		{"main.lua", "fnValue", 19, 4, false, "function values are exempt"},
		{"main.lua", "unusedLocalFunc", 20, 4, false, "function values are exempt"},
		{"main.lua", "loopVar", 21, 4, false, "loop variables are exempt"},
		{"main.lua", "k", 22, 4, false, "loop variables are exempt"},
		{"main.lua", "p2", 23, 4, false, "parameters are exempt"},
	}
	out = append(out, c07Planted{Files: base, Expect: exp})
	// the same in config-file mode with defaults
	out = append(out, c07Planted{Files: base, JSON: "{}", Expect: exp})
	// ignore lists (config-file mode)
	ign := map[string]interface{}{
		"IgnoreModules":        []string{"neverDefinedTop"},
		"IgnoreFileVars":       []interface{}{map[string]interface{}{"File": "main.lua", "Vars": []string{"neverDefinedInner"}}},
		"IgnoreLocalNoUseVars": []string{"unusedPlain"},
	}
	jb, _ := json.Marshal(ign)
	exp2 := append([]c07Exp{}, exp...)
	for i := range exp2 {
		switch exp2[i].Name {
		case "neverDefinedTop", "neverDefinedInner", "unusedPlain":
			exp2[i].Must = false
			exp2[i].Why = "ignored by configuration"
		}
	}
	out = append(out, c07Planted{Files: base, JSON: string(jb), Expect: exp2})
	return out
}

func c07View(c *Ctx, files map[string]string, jsonCfg string, tag string) (map[string][]Diag, *Workspace, error) {
	f := map[string]string{}
	for k, v := range files {
		f[k] = v
	}
	if jsonCfg != "" {
		f["luahelper.json"] = jsonCfg
	}
	ws := c.NewWorkspace(f)
	opts := ServerOpts{Root: ws.Root, Tag: tag}
	if jsonCfg != "" && len(jsonCfg)%2 == 1 {
		// config-file mode, half of the runs as a client that starts the server locally (LocalRun): the names the
		// configuration file ignores stay ignored
		opts.Init = allOnInit()
		opts.Init["LocalRun"] = true
		c.Count("config_file_runs_with_local_run", 1)
	}
	srv, err := StartServer(opts)
	if err != nil {
		if srv != nil {
			srv.Close()
		}
		ws.Remove()
		return nil, nil, err
	}
	v := srv.View()
	srv.Close()
	out := map[string][]Diag{}
	for u, ds := range v {
		out[ws.Rel(u)] = ds
	}
	return out, ws, nil
}

func hasDiagAt(ds []Diag, typ int, rg Range) bool {
	for _, d := range ds {
		if d.Type == typ && d.Range == rg {
			return true
		}
	}
	return false
}

func hasDiagOnLineNamed(ds []Diag, typ int, line int, name string) bool {
	for _, d := range ds {
		if d.Type == typ && d.Range.Start.Line == line && strings.Contains(d.Message, name) {
			return true
		}
	}
	return false
}

func runC07(c *Ctx) {
	// planted cases
	for pi, pl := range c07PlantedCases() {
		c.Eval(1)
		view, ws, err := c07View(c, pl.Files, pl.JSON, fmt.Sprintf("c07p%d", pi))
		if err != nil {
			c.Inconclusive("server failed on planted case: " + err.Error())
			continue
		}
		ws.Remove()
		mode := "client"
		if pl.JSON != "" {
			mode = "json"
		}
		for _, e := range pl.Expect {
			got := hasDiagOnLineNamed(view[e.File], e.Type, e.Line, e.Name)
			c.Count("planted_expectations", 1)
			c.Distinct(fmt.Sprint(pi, e))
			if got != e.Must {
				verb := "missing"
				if got {
					verb = "unexpected"
				}
				c.Report(fmt.Sprintf("planted|%s|type%d|%s|%s", mode, e.Type, verb, e.Name),
					fmt.Sprintf("%s diagnostic type %d for %s on line %d of %s (%s; mode %s)", verb, e.Type, e.Name, e.Line, e.File, e.Why, mode),
					map[string]interface{}{"files": pl.Files, "luahelper.json": pl.JSON, "expectation": e})
			}
		}
	}
	// generated workspaces, generic classification
	nWS := c.N(2000, 100000)
	root := NewRng(c.Seed).Fork(7)
	parallel(nWS, 14, func(i int) {
		r := root.Fork(uint64(i))
		sw := GenScopeWS(r, ScopeCfg{})
		if r.Fork(0x66696c65).Chance(1, 5) {
			sw.AddFileNamedLikeAGlobal(r.Fork(0x66696c66))
			c.Count("workspaces_with_a_file_named_like_a_global", 1)
		}
		if r.Fork(0x72657175).Chance(1, 5) {
			if sw2, n := sw.WithRequireOfModuleNamedLikeAGlobal(r.Fork(0x72657176)); n != "" {
				sw = sw2
				c.Count("workspaces_that_require_a_module_named_like_a_global_they_use", 1)
			}
		}
		c.Eval(1)
		jsonCfg := ""
		var ign *c07Ignore
		if i%4 == 3 {
			jsonCfg = "{}"
			if r.Bool() {
				// ignore lists: a global ignore list and per-file lists that differ from file to file
				ign = &c07Ignore{Modules: map[string]bool{}, FileVars: map[string]map[string]bool{}}
				never := []string{"GNever1", "GNever2"}
				if r.Chance(1, 3) {
					ign.Modules[r.Pick(never)] = true
				}
				var fv []interface{}
				for fi, f := range sw.Files {
					vars := []string{never[(fi+i)%2]}
					if r.Chance(1, 4) {
						vars = never
					}
					if r.Chance(1, 5) {
						continue // a file without an entry
					}
					ign.FileVars[f.Rel] = map[string]bool{}
					for _, v := range vars {
						ign.FileVars[f.Rel][v] = true
					}
					fv = append(fv, map[string]interface{}{"File": f.Rel, "Vars": vars})
				}
				var mods []string
				for m := range ign.Modules {
					mods = append(mods, m)
				}
				jb, _ := json.Marshal(map[string]interface{}{"IgnoreModules": mods, "IgnoreFileVars": fv})
				jsonCfg = string(jb)
				c.Count("workspaces_with_ignore_lists", 1)
			}
		}
		checkC07WSIgn(c, sw, jsonCfg, ign, fmt.Sprintf("c07w%d", i))
		mode := "client"
		if jsonCfg != "" {
			mode = "json"
		}
		if i < 1 {
			c.Sample(map[string]interface{}{"files": sw.FileMap(), "mode": mode})
		}
	})
	var keys []string
	for k := range c.counters {
		keys = append(keys, k)
	}
	sort.Strings(keys)
	c.Finish("planted cases (23 expectations x client mode, config-file mode, config-file mode with ignore lists) plus generated multi-file workspaces as in C05, every 4th in "+
		"config-file mode (half of those with a global ignore list and per-file ignore lists that differ between files); every read occurrence and every declaration is classified by R-bind into MUST / MUST-NOT / DON'T-CARE for diagnostic types 2, 3 and 4 (17 only as 'never on a read local') "+
		"and compared with the published diagnostics at exactly that identifier's range. distinct_nontrivial = distinct (file text, occurrence or declaration) with a definite expectation", 300)
}

func init() {
	wsChecks["C07"] = func(c *Ctx, sw *ScopeWS, tag string) { checkC07WS(c, sw, "", tag) }
}

// c07Ignore: names whose undefined-variable report the configuration switches off, globally and per file.
type c07Ignore struct {
	Modules  map[string]bool
	FileVars map[string]map[string]bool
}

func (g *c07Ignore) ignored(rel, name string) bool {
	return g != nil && (g.Modules[name] || g.FileVars[rel][name])
}

func checkC07WS(c *Ctx, sw *ScopeWS, jsonCfg string, tag string) { checkC07WSIgn(c, sw, jsonCfg, nil, tag) }

func checkC07WSIgn(c *Ctx, sw *ScopeWS, jsonCfg string, ign *c07Ignore, tag string) {
	view, ws, err := c07View(c, sw.FileMap(), jsonCfg, tag)
	if err != nil {
		c.Inconclusive("server failed on a generated workspace (C01's business): " + err.Error())
		return
	}
	ws.Remove()
	mode := "client"
	if jsonCfg != "" {
		mode = "json"
	}
	for _, f := range sw.Files {
		ds := view[f.Rel]
		witness := func(extra map[string]interface{}) interface{} {
			m := map[string]interface{}{"files": sw.FileMap(), "file": f.Rel, "mode": mode}
			for k, v := range extra {
				m[k] = v
			}
			return m
		}
		// ---- undefined variables
		for _, o := range f.Bind.Occs {
			// (the implicit self of a method is a bound name like any parameter)
			if o.IsDecl || o.Write || (!queryable(o) && !(o.Decl != nil && o.Decl.Kind == DSelf)) {
				continue
			}
			name := o.Tok.Val
			rg := f.TokRange(o.Tok)
			if o.Decl != nil && o.Decl.Kind == DSelf {
				// the tool reads the implicit self as the table the method is declared on: when the root of that path is itself
				// not defined anywhere the report at self is about that root
				if root := c07MethodRoot(f, o.Decl); root == nil || (root.Decl == nil && len(sw.GlobalDefs[root.Tok.Val]) == 0) {
					c.Count("dont_care_self_of_a_method_on_an_undefined_table", 1)
					continue
				}
			}
			has2 := hasDiagAt(ds, 2, rg)
			has3 := hasDiagAt(ds, 3, rg)
			cls := lineFeatures(f.Src, o.Tok) + "|" + occClass(f, o)
			if o.Decl != nil {
				// a visible local binds it: never undefined
				c.Count("bound_reads_checked", 1)
				c.Distinct(f.Text + fmt.Sprint("b", o.Tok.Off))
				if has2 || has3 {
					c.Report(fmt.Sprintf("undefined-reported-for-bound-name|%s|%s", mode, cls),
						fmt.Sprintf("%s at %s:%v is bound to a %s but reported undefined", name, f.Rel, rg.Start, declKindName(o)), witness(map[string]interface{}{"name": name, "range": rg}))
				}
				continue
			}
			if luaBuiltins[name] {
				c.Count("dont_care_builtin", 1)
				continue
			}
			defs := sw.GlobalDefs[name]
			if len(defs) == 0 {
				if c07IdiomContext(f, o) {
					c.Count("dont_care_idiom_context", 1)
					continue
				}
				if ign.ignored(f.Rel, name) {
					c.Count("ignored_undefined_reads_checked", 1)
					c.Distinct(f.Text + fmt.Sprint("i", o.Tok.Off))
					if has2 {
						c.Report(fmt.Sprintf("ignored-name-reported|%s|%s", mode, cls),
							fmt.Sprintf("%s at %s:%v is on an ignore list that covers this file but is reported undefined", name, f.Rel, rg.Start),
							witness(map[string]interface{}{"name": name, "range": rg, "luahelper.json": jsonCfg}))
					}
					continue
				}
				c.Count("undefined_reads_checked", 1)
				c.Distinct(f.Text + fmt.Sprint("u", o.Tok.Off))
				if ign != nil {
					c.Count("undefined_reads_checked_beside_ignore_lists", 1)
				}
				if !has2 {
					c.Report(fmt.Sprintf("undefined-not-reported|%s|%s", mode, cls),
						fmt.Sprintf("%s at %s:%v is defined nowhere but no type-2 diagnostic covers it", name, f.Rel, rg.Start), witness(map[string]interface{}{"name": name, "range": rg, "luahelper.json": jsonCfg}))
				}
				continue
			}
			// defined somewhere
			other, sameTopEarlier, sameTopLater, sameNested := false, false, false, false
			myIdx, _ := c07TopStatIndex(f, o.Tok)
			for _, d := range defs {
				if d.File != f {
					other = true
					continue
				}
				di, direct := c07TopStatIndex(f, d.Occ.Tok)
				if !direct || d.Occ.FnDepth > 0 {
					sameNested = true
				} else if di < myIdx {
					sameTopEarlier = true
				} else if di == myIdx {
					sameNested = true // self reference inside the defining statement (x = x or v idiom family): don't-care
				} else {
					sameTopLater = true
				}
			}
			switch {
			case other && !sameTopLater && !sameNested, o.FnDepth > 0, sameTopEarlier && !sameNested && !sameTopLater:
				// defined in another file / read inside a function body / defined by an earlier top-level statement
				if other && (sameTopLater || sameNested) && o.FnDepth == 0 {
					c.Count("dont_care_defined_here_later_and_elsewhere", 1)
					continue
				}
				c.Count("defined_reads_checked", 1)
				c.Distinct(f.Text + fmt.Sprint("d", o.Tok.Off))
				if has2 || has3 {
					t := 2
					if has3 {
						t = 3
					}
					c.Report(fmt.Sprintf("undefined-reported-for-defined-global|type%d|%s|%s", t, mode, cls),
						fmt.Sprintf("global %s at %s:%v has a definition that counts (other file=%v, earlier=%v, in function=%v) but is reported type %d", name, f.Rel, rg.Start, other, sameTopEarlier, o.FnDepth > 0, t),
						witness(map[string]interface{}{"name": name, "range": rg}))
				}
			case !other && !sameTopEarlier && !sameNested && sameTopLater && o.FnDepth == 0:
				if c07IdiomContext(f, o) {
					c.Count("dont_care_idiom_context", 1)
					continue
				}
				c.Count("defined_later_reads_checked", 1)
				c.Distinct(f.Text + fmt.Sprint("l", o.Tok.Off))
				if !has3 {
					c.Report(fmt.Sprintf("use-before-definition-not-reported|%s|%s", mode, cls),
						fmt.Sprintf("top-level read of %s at %s:%v precedes its only (later, top-level) definition but no type-3 diagnostic covers it", name, f.Rel, rg.Start),
						witness(map[string]interface{}{"name": name, "range": rg}))
				}
			default:
				c.Count("dont_care_definition_only_in_function_bodies", 1)
			}
		}
		// ---- unused locals
		for _, d := range f.Bind.Decls {
			if d.Tok == nil {
				continue
			}
			rg := f.TokRange(d.Tok)
			has4 := hasDiagAt(ds, 4, rg)
			exempt := ""
			switch {
			case d.Kind != DLocal:
				exempt = "not-a-plain-local"
			case d.Name == "_":
				exempt = "underscore"
			case d.Attr == "close":
				exempt = "to-be-closed"
			case d.Init != nil && unparen(d.Init).K == EFunction:
				exempt = "function-value"
			}
			if exempt != "" || len(d.Reads) > 0 {
				c.Count("read_or_exempt_locals_checked", 1)
				c.Distinct(f.Text + fmt.Sprint("r", d.Tok.Off))
				if has4 {
					why := exempt
					rcls := ""
					if exempt == "" {
						why = fmt.Sprintf("%d reads", len(d.Reads))
						allTrig := true
						for _, rd := range d.Reads {
							if !c07Quirk(f, rd) {
								allTrig = false
							}
						}
						rcls = "|some-read-plain"
						if allTrig {
							rcls = "|all-reads-in-resolver-trigger-classes"
						}
					}
					c.Report(fmt.Sprintf("unused-reported-for-used-or-exempt-local|%s|%s%s", mode, strings.Split(why, " ")[len(strings.Split(why, " "))-1], rcls),
						fmt.Sprintf("local %s at %s:%v (%s) is reported unused", d.Name, f.Rel, rg.Start, why), witness(map[string]interface{}{"name": d.Name, "range": rg}))
				}
				continue
			}
			// never read, plain local: is it an alias of a library name (documented exemption)?
			if d.Init != nil {
				base := d.Init
				for base.K == EIndex || base.K == EParen {
					base = base.A
				}
				if base.K == EName && luaBuiltins[base.Tok.Val] {
					c.Count("dont_care_library_alias", 1)
					continue
				}
				if base.K == ECall && base.A.K == EName && base.A.Tok.Val == "require" {
					c.Count("dont_care_require_alias", 1)
					continue
				}
			}
			// a local that is at some point assigned a library name / require result is covered by the same exemption
			libAssigned := false
			for _, w := range d.Writes {
				if w.Stat != nil {
					for _, e := range w.Stat.List2 {
						base := unparen(e)
						for base != nil && (base.K == EIndex || base.K == EParen) {
							base = base.A
						}
						if base != nil && base.K == EName && luaBuiltins[base.Tok.Val] {
							libAssigned = true
						}
						if base != nil && base.K == ECall && base.A.K == EName && luaBuiltins[base.A.Tok.Val] {
							libAssigned = true
						}
					}
				}
			}
			if libAssigned {
				c.Count("dont_care_library_alias", 1)
				continue
			}
			c.Count("never_read_locals_checked", 1)
			c.Distinct(f.Text + fmt.Sprint("n", d.Tok.Off))
			if !has4 {
				same := "plain"
				if d.Stat != nil && d.Stat.K == SLocal {
					for _, o2 := range f.Bind.Occs {
						if !o2.IsDecl && o2.Tok.Val == d.Name && o2.Tok.Off > d.Stat.First.Off && o2.Tok.End <= d.Stat.Last.End {
							same = "initialiser-uses-same-name"
						}
					}
				}
				c.Report(fmt.Sprintf("unused-not-reported|%s|%s", mode, same),
					fmt.Sprintf("local %s at %s:%v is never read but no type-4 diagnostic covers it", d.Name, f.Rel, rg.Start), witness(map[string]interface{}{"name": d.Name, "range": rg}))
			}
		}
		// type 17 never on a read local
		for _, dg := range ds {
			if dg.Type != 17 {
				continue
			}
			for _, d := range f.Bind.Decls {
				if len(d.Reads) == 0 {
					continue
				}
				for _, w := range d.Writes {
					if f.TokRange(w.Tok) == dg.Range {
						allTrig := true
						for _, rd := range d.Reads {
							if !c07Quirk(f, rd) {
								allTrig = false
							}
						}
						rc := "some-read-plain"
						if c07Quirk(f, w) {
							rc = "write-in-resolver-trigger-class"
						}
						if allTrig {
							rc = "all-reads-in-resolver-trigger-classes"
						}
						c.Report(fmt.Sprintf("assign-only-reported-for-read-local|%s|%s", mode, rc),
							fmt.Sprintf("type 17 on assignment to %s at %s:%v although the local is read", d.Name, f.Rel, dg.Range.Start), witness(map[string]interface{}{"name": d.Name}))
					}
				}
			}
		}
	}
}

func unparen(e *Node) *Node {
	for e != nil && e.K == EParen {
		e = e.A
	}
	return e
}

// c07Quirk: does the occurrence lie in a trigger class in which the analysis traversal (not only the position-based
// query resolver) of the pinned tree is known to bind a name wrongly (C07-K1..K3)? Every enclosing construct counts,
// not only the innermost. The limit and step of a same-named numeric for are not among them: the traversal analyses
// them before it declares the control variable (the init expression is).
func c07Quirk(f *SFile, o *Occ) bool {
	if lineFeatures(f.Src, o.Tok) != "-" {
		return true
	}
	for cls := range occTriggerSet(f, o) {
		if cls != "in-bounds-of-same-named-numeric-for:limit-or-step" {
			return true
		}
	}
	return false
}

// c07MethodRoot: the occurrence of the first name of `function a.b.c:m(` for the implicit self declared by that method's body
// (the body node starts at the keyword `function`).
func c07MethodRoot(f *SFile, d *Decl) *Occ {
	if d.Stat == nil || d.Stat.First == nil || d.Stat.Tok == nil {
		return nil
	}
	var root *Occ
	for _, o := range f.Bind.Occs {
		if o.Tok.Off >= d.Stat.First.End && o.Tok.Off < d.Stat.Tok.Off && (root == nil || o.Tok.Off < root.Tok.Off) {
			root = o
		}
	}
	return root
}
