local a1 = 1
local b1 = undefinedZ1 + 3
print(b1)
print(lateG1)
lateG1 = 1
local unusedL1 = 1
local t1 = { k = 1, k = 2 }
local m1 = require("nofile1")
local c1
c1 = a1, b1
local d1 = a1, b1
print(c1, d1, t1, m1)
for k, v in pairs(t1) do
  if v == 1 then
    goto cont1
  end
  ::continue1::
end
function calcAdd1(one, two)
  print(one + two)
end
calcAdd1(1, 2, 3)
local ss1 = calcAdd1(1, 2)
if not ss1 then
  print(ss1.name)
end
function dupParam1(one, one)
  print(one)
end
local e1 = a1 and a1
a1 = a1 or true
a1 = a1 and false
print(e1)
local w1 = 1
w1 = 2
if a1 == 1 then
elseif a1 == 1 then
end
a1 = a1
if a1 == 1.5 then end
if a1 == a1 then end
if a1 ~= a1 then end
if a1 < a1 then end
if a1 ~= 2.5 then end
local tk1 = { kk = 1, kk = 2 }
print(tk1)
---@class ZooCls1
---@field fa number
local ZooCls1 = {}
---@type ZooCls1
local zv1 = {}
print(zv1.nofield, ZooCls1)
local cst1 <const> = 1
cst1 = 2
---@param p number
---@return number
function typed1(p)
  return "s"
end
typed1("str")
---@type NoSuchType1
local badAnno1 = 1
print(badAnno1)
---@param
local function malformedAnno1(q1)
  return q1
end
print(malformedAnno1(1))
