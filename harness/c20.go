package main

// C20 — pattern-based semantic checks fire exactly where their pattern occurs.
// Monitor: per planted site (one per line) the diagnostics of types 5,7,8,13,14,15,16,19,20,21 whose
// range touches that line are compared with a three-valued expectation (R-pattern).

import (
	"fmt"
	"sort"
	"strings"
)

var c20Types = []int{5, 7, 8, 13, 14, 15, 16, 19, 20, 21}

const (
	expNot  = 0 // MUST-NOT (default)
	expMust = 1
	expDC   = -1
)

type c20Site struct {
	Text   string      // one line (may open a block closed by Close)
	Expect map[int]int // type -> count expected (MUST n), expDC = don't-care; absent = 0
	Label  string
}

// expression patterns: produce an expression and the expectation it carries
type c20Pat struct {
	Label string
	Exp   func(a, b string) string
	Exp2  map[int]int
}

func c20ExprPatterns() []c20Pat {
	m := func(kv ...int) map[int]int {
		o := map[int]int{}
		for i := 0; i+1 < len(kv); i += 2 {
			o[kv[i]] = kv[i+1]
		}
		return o
	}
	return []c20Pat{
		// 14: identical operands of comparison / and / or
		{"same-eq", func(a, b string) string { return a + " == " + a }, m(14, 1)},
		{"same-ne", func(a, b string) string { return a + " ~= " + a }, m(14, 1)},
		{"same-lt", func(a, b string) string { return a + " < " + a }, m(14, 1)},
		{"same-le", func(a, b string) string { return a + " <= " + a }, m(14, 1)},
		{"same-gt", func(a, b string) string { return a + " > " + a }, m(14, 1)},
		{"same-ge", func(a, b string) string { return a + " >= " + a }, m(14, 1)},
		{"same-and", func(a, b string) string { return a + " and " + a }, m(14, 1)},
		{"same-or", func(a, b string) string { return a + " or " + a }, m(14, 1)},
		{"same-member", func(a, b string) string { return a + ".fld == " + a + ".fld" }, m(14, 1)},
		{"near-diff-names", func(a, b string) string { return a + " == " + b }, m()},
		{"near-diff-member", func(a, b string) string { return a + ".fld == " + a + ".other" }, m()},
		{"near-arith-op", func(a, b string) string { return a + " + " + a }, m()},
		{"near-concat", func(a, b string) string { return a + " .. " + a }, m()},
		{"dc-parens", func(a, b string) string { return "(" + a + ") == " + a }, m(14, expDC)},
		{"dc-index-forms", func(a, b string) string { return a + ".fld == " + a + "[\"fld\"]" }, m(14, expDC)},
		{"dc-calls", func(a, b string) string { return a + "() == " + a + "()" }, m(14, expDC)},
		{"dc-arith-operands", func(a, b string) string { return "(" + a + " + 1) == (" + a + " + 1)" }, m(14, expDC)},
		{"dc-literals", func(a, b string) string { return "1 == 1" }, m(14, expDC)},
		// 15 / 16
		{"or-true", func(a, b string) string { return a + " or true" }, m(15, 1)},
		{"true-or", func(a, b string) string { return "true or " + a }, m(15, 1)},
		{"and-false", func(a, b string) string { return a + " and false" }, m(16, 1)},
		{"false-and", func(a, b string) string { return "false and " + a }, m(16, 1)},
		{"near-or-false", func(a, b string) string { return a + " or false" }, m()},
		{"near-and-true", func(a, b string) string { return a + " and true" }, m()},
		{"near-or-name", func(a, b string) string { return a + " or " + b }, m()},
		{"near-and-nil", func(a, b string) string { return a + " and nil" }, m()},
		{"dc-or-paren-true", func(a, b string) string { return a + " or (true)" }, m(15, expDC)},
		{"nested-or-true", func(a, b string) string { return "(" + a + " or true) and " + b }, m(15, 1)},
		// one occurrence as the left operand of another occurrence of the same check (both start at the same token)
		{"chain-or-true-twice", func(a, b string) string { return a + " or true or true" }, m(15, 2)},
		{"chain-and-false-twice", func(a, b string) string { return a + " and false and false" }, m(16, 2)},
		{"chain-or-true-paren", func(a, b string) string { return "(" + a + " or true) or true" }, m(15, 2)},
		{"chain-eq-float-twice", func(a, b string) string { return a + " == 0.5 == 1.5" }, m(21, 2)},
		{"chain-same-eq-then-float", func(a, b string) string { return a + " == " + a + " == 2.5" }, m(14, 1, 21, 1)},
		// 21
		{"eq-float", func(a, b string) string { return a + " == 1.5" }, m(21, 1)},
		{"float-ne", func(a, b string) string { return "0.25 ~= " + a }, m(21, 1)},
		{"near-eq-int", func(a, b string) string { return a + " == 15" }, m()},
		{"near-lt-float", func(a, b string) string { return a + " < 1.5" }, m()},
		{"near-eq-string", func(a, b string) string { return a + " == \"1.5\"" }, m()},
		{"dc-neg-float", func(a, b string) string { return a + " == -1.5" }, m(21, expDC)},
		// 5 (duplicate key) as an expression
		{"dup-key", func(a, b string) string { return "{ k1 = " + a + ", k2 = 2, k1 = 3 }" }, m(5, 1)},
		{"dup-key-thrice", func(a, b string) string { return "{ kk = 1, kk = 2, kk = " + a + " }" }, m(5, 2)},
		{"near-diff-keys", func(a, b string) string { return "{ k1 = " + a + ", k2 = 2, k3 = 3 }" }, m()},
		{"near-nested-same-key", func(a, b string) string { return "{ k1 = { k1 = " + a + " }, k2 = 2 }" }, m()},
		{"near-field-vs-variable-key", func(a, b string) string { return "{ " + a + " = 1, [" + a + "] = 2 }" }, m()},
		{"near-variable-vs-field-key", func(a, b string) string { return "{ [" + a + "] = 1, " + a + " = " + b + " }" }, m()},
		{"near-variable-vs-string-key", func(a, b string) string { return "{ [" + a + "] = 1, [\"" + a + "\"] = 2, k3 = 3 }" }, m()},
		{"dc-variable-key-twice", func(a, b string) string { return "{ [" + a + "] = 1, [" + a + "] = 2 }" }, m(5, expDC)},
		{"dc-string-vs-name-key", func(a, b string) string { return "{ k1 = 1, [\"k1\"] = " + a + " }" }, m(5, expDC)},
		{"dc-numeric-keys", func(a, b string) string { return "{ [1] = " + a + ", [1] = 2 }" }, m(5, expDC)},
		{"dc-num-vs-string-key", func(a, b string) string { return "{ [1] = " + a + ", [\"1\"] = 2 }" }, m(5, expDC)},
		{"dc-positional-vs-index", func(a, b string) string { return "{ " + a + ", [1] = 2 }" }, m(5, expDC)},
	}
}

// expression contexts: wrap an expression into a one-line statement
func c20Contexts() []func(e string, n int) string {
	return []func(e string, n int) string{
		func(e string, n int) string { return fmt.Sprintf("local ctx%d = %s", n, e) },
		func(e string, n int) string { return fmt.Sprintf("sink(%s)", e) },
		func(e string, n int) string { return fmt.Sprintf("sink({ inner = %s })", e) },
		func(e string, n int) string { return fmt.Sprintf("if %s then sink(%d) end", e, n) },
		func(e string, n int) string { return fmt.Sprintf("while %s do break end", e) },
		func(e string, n int) string { return fmt.Sprintf("gout%d = function() return %s end", n, e) },
		func(e string, n int) string { return fmt.Sprintf("sink(function(z) return z, %s end)", e) },
		func(e string, n int) string { return fmt.Sprintf("repeat sink(%d) until %s", n, e) },
		func(e string, n int) string { return fmt.Sprintf("sink(%d, (%s))", n, e) },
	}
}

func c20StatementSites(r *Rng, n int) []c20Site {
	a, b, cc := fmt.Sprintf("va%d", n), fmt.Sprintf("vb%d", n), fmt.Sprintf("vc%d", n)
	m := func(kv ...int) map[int]int {
		o := map[int]int{}
		for i := 0; i+1 < len(kv); i += 2 {
			o[kv[i]] = kv[i+1]
		}
		return o
	}
	all := []c20Site{
		// 7: assignment arity
		{fmt.Sprintf("%s = %s, %s", a, b, cc), m(7, 1), "assign-more-values"},
		{fmt.Sprintf("%s, %s = 1, 2, 3", a, b), m(7, 1), "assign-more-values-2"},
		{fmt.Sprintf("%s, %s = 1", a, b), m(7, 1), "assign-shortfall-single-valued"},
		{fmt.Sprintf("%s, %s, %s = %s, \"s\"", a, b, cc, b), m(7, 1), "assign-shortfall-single-valued-2"},
		{fmt.Sprintf("%s, %s = 1, 2", a, b), m(), "near-assign-equal"},
		{fmt.Sprintf("%s, %s = sink()", a, b), m(7, expDC), "dc-assign-shortfall-call"},
		{fmt.Sprintf("%s, %s = ...", a, b), m(7, expDC), "dc-assign-shortfall-vararg"},
		{fmt.Sprintf("%s, %s, %s = 1, sink()", a, b, cc), m(7, expDC), "dc-assign-shortfall-last-call"},
		{fmt.Sprintf("%s, %s = { 1 }", a, b), m(7, expDC), "dc-assign-shortfall-table"},
		// 8: local arity
		{fmt.Sprintf("local la%d = %s, %s", n, a, b), m(8, 1), "local-more-values"},
		{fmt.Sprintf("local la%d, lb%d = 1, 2, 3", n, n), m(8, 1), "local-more-values-2"},
		{fmt.Sprintf("local la%d, lb%d = 1", n, n), m(8, 1), "local-shortfall-single-valued"},
		{fmt.Sprintf("local la%d, lb%d = 1, 2", n, n), m(), "near-local-equal"},
		{fmt.Sprintf("local la%d, lb%d", n, n), m(), "near-local-no-values"},
		{fmt.Sprintf("local la%d, lb%d = sink()", n, n), m(8, expDC), "dc-local-shortfall-call"},
		{fmt.Sprintf("local la%d, lb%d = (sink())", n, n), m(8, expDC), "dc-local-shortfall-paren-call"},
		// 13: duplicate parameters
		{fmt.Sprintf("local function fd%d(p, q, p) return p, q end", n), m(13, 1), "dup-param"},
		{fmt.Sprintf("gfd%d = function(p, p, p) return p end", n), m(13, expDC), "dc-dup-param-thrice"},
		{fmt.Sprintf("local function fn%d(p, q, r) return p, q, r end", n), m(), "near-distinct-params"},
		{fmt.Sprintf("local function fu%d(_, _) return 1 end", n), m(13, expDC), "dc-underscore-params"},
		{fmt.Sprintf("local function fo%d(p) return function(p) return p end end", n), m(), "near-shadowing-param-in-inner-function"},
		// 19: repeated if condition
		{fmt.Sprintf("if %s == 1 then sink(1) elseif %s == 1 then sink(2) end", a, a), m(19, 1), "dup-if-cond"},
		{fmt.Sprintf("if %s then sink(1) elseif %s then sink(2) elseif %s then sink(3) end", a, b, a), m(19, 1), "dup-if-cond-third"},
		{fmt.Sprintf("if %s == 1 then sink(1) elseif %s == 2 then sink(2) end", a, a), m(), "near-if-diff-literal"},
		{fmt.Sprintf("if %s == 1 then sink(1) elseif %s == 1 then sink(2) end", a, b), m(), "near-if-diff-name"},
		{fmt.Sprintf("if %s == 1 then sink(1) end if %s == 1 then sink(2) end", a, a), m(), "near-two-separate-ifs"},
		{fmt.Sprintf("if (%s) then sink(1) elseif %s then sink(2) end", a, a), m(19, expDC), "dc-if-parens"},
		// ... with conditions that are literals, calls, member paths, operators
		{fmt.Sprintf("if %s then sink(1) elseif nil then sink(2) elseif nil then sink(3) end", a), m(19, 1), "dup-if-cond-literal-nil"},
		{fmt.Sprintf("if %s then sink(1) elseif false then sink(2) elseif false then sink(3) end", a), m(19, 1), "dup-if-cond-literal-false"},
		{fmt.Sprintf("if %s then sink(1) elseif true then sink(2) elseif true then sink(3) end", a), m(19, 1), "dup-if-cond-literal-true"},
		{fmt.Sprintf("if %s == nil then sink(1) elseif %s == nil then sink(2) end", a, a), m(19, 1), "dup-if-cond-compare-nil"},
		{fmt.Sprintf("if not %s then sink(1) elseif not %s then sink(2) end", a, a), m(19, 1), "dup-if-cond-not"},
		{fmt.Sprintf("if %s.fld.deep then sink(1) elseif %s.fld.deep then sink(2) end", a, a), m(19, 1), "dup-if-cond-member-path"},
		{fmt.Sprintf("if %s == nil then sink(1) elseif %s == false then sink(2) end", a, a), m(), "near-if-nil-versus-false"},
		{fmt.Sprintf("if nil then sink(1) elseif false then sink(2) elseif %s then sink(3) end", a), m(), "near-if-literal-nil-versus-false"},
		// 20: self assignment
		{fmt.Sprintf("%s = %s", a, a), m(20, 1), "self-assign"},
		{fmt.Sprintf("%s.fld = %s.fld", a, a), m(20, 1), "self-assign-member"},
		{fmt.Sprintf("%s, %s = %s, %s", a, b, a, b), m(20, 1), "self-assign-pairwise"},
		{fmt.Sprintf("%s, %s = %s, %s", a, b, b, a), m(), "near-swap"},
		{fmt.Sprintf("%s, %s = %s, %s", a, b, cc, b), m(), "near-self-assign-last-pair-only"},
		{fmt.Sprintf("%s, %s = %s, %s", a, b, a, cc), m(), "near-self-assign-first-pair-only"},
		{fmt.Sprintf("%s, %s, %s = 1, %s, %s", a, b, cc, b, cc), m(), "near-self-assign-all-but-first-pair"},
		{fmt.Sprintf("%s.fld, %s.other = %s.other, %s.other", a, a, a, a), m(), "near-self-assign-member-last-pair-only"},
		{fmt.Sprintf("%s = %s", a, b), m(), "near-assign-other"},
		{fmt.Sprintf("%s.fld = %s.other", a, a), m(), "near-assign-other-member"},
		{fmt.Sprintf("%s = (%s)", a, a), m(20, expDC), "dc-self-assign-parens"},
		{fmt.Sprintf("%s.fld = %s[\"fld\"]", a, a), m(20, expDC), "dc-self-assign-index-forms"},
		{fmt.Sprintf("local ls%d = ls%d", n, n), m(20, expDC), "dc-local-self-init"},
	}
	return all
}

// ---------------------------------------------------------------------------------------------
// generated near-misses: a random operand expression and a copy that differs in exactly one leaf
// (variable, member name, method name, key, argument, operator, literal). Two such expressions are
// not "the same expression", so none of the identity-based checks (14, 19, 20) may fire on them.

type c20Part struct {
	Text string
	Kind string // "" = fixed; otherwise the leaf kind that may be mutated
}

func c20GenChain(r *Rng, vars []string, depth int, assignable bool) []c20Part {
	ps := []c20Part{{r.Pick(vars), "variable"}}
	n := r.Range(0, 3)
	if assignable && n == 0 && r.Bool() {
		n = 1
	}
	for i := 0; i < n; i++ {
		last := i == n-1
		k := r.Intn(5)
		if assignable && last && k >= 3 {
			k = r.Intn(3) // an assignment target cannot end in a call
		}
		switch k {
		case 0:
			ps = append(ps, c20Part{".", ""}, c20Part{r.Pick([]string{"fld", "other", "x", "pos", "name"}), "member-name"})
		case 1:
			ps = append(ps, c20Part{"[", ""})
			switch r.Intn(3) {
			case 0:
				ps = append(ps, c20Part{fmt.Sprint(r.Range(1, 9)), "number-key"})
			case 1:
				ps = append(ps, c20Part{"\"" + r.Pick([]string{"k", "key", "id"}) + "\"", "string-key"})
			default:
				if depth > 0 {
					ps = append(ps, c20GenChain(r, vars, depth-1, false)...)
				} else {
					ps = append(ps, c20Part{r.Pick(vars), "variable"})
				}
			}
			ps = append(ps, c20Part{"]", ""})
		case 2:
			ps = append(ps, c20Part{".", ""}, c20Part{r.Pick([]string{"sub", "inner"}), "member-name"}, c20Part{".", ""}, c20Part{r.Pick([]string{"fld", "other"}), "member-name"})
		case 3, 4:
			if k == 3 {
				ps = append(ps, c20Part{":", ""}, c20Part{r.Pick([]string{"get", "put", "isA", "isB", "size"}), "method-name"})
			} else {
				ps = append(ps, c20Part{".", ""}, c20Part{r.Pick([]string{"fn", "call"}), "member-name"})
			}
			ps = append(ps, c20Part{"(", ""})
			na := r.Range(0, 2)
			for j := 0; j < na; j++ {
				if j > 0 {
					ps = append(ps, c20Part{", ", ""})
				}
				switch r.Intn(3) {
				case 0:
					ps = append(ps, c20Part{fmt.Sprint(r.Range(1, 99)), "number-argument"})
				case 1:
					ps = append(ps, c20Part{"\"" + r.Pick([]string{"s", "t", "uv"}) + "\"", "string-argument"})
				default:
					ps = append(ps, c20Part{r.Pick(vars), "variable"})
				}
			}
			ps = append(ps, c20Part{")", ""})
		}
	}
	return ps
}

func c20GenTerm(r *Rng, vars []string, depth int) []c20Part {
	switch r.Intn(6) {
	case 0:
		return append([]c20Part{{r.Pick([]string{"not ", "#", "-"}), "unary-operator"}}, c20GenChain(r, vars, depth, false)...)
	case 1:
		ps := c20GenChain(r, vars, depth, false)
		ps = append(ps, c20Part{" " + r.Pick([]string{"+", "-", "*", "..", "%"}) + " ", "binary-operator"})
		return append(ps, c20GenChain(r, vars, depth, false)...)
	case 2:
		ps := c20GenChain(r, vars, depth, false)
		ps = append(ps, c20Part{" + ", ""}, c20Part{fmt.Sprint(r.Range(1, 99)), "number-operand"})
		return ps
	}
	return c20GenChain(r, vars, depth, false)
}

var c20Alternatives = map[string][]string{
	"member-name": {"fld", "other", "x", "pos", "name", "sub", "inner", "fn", "call"}, "method-name": {"get", "put", "isA", "isB", "size"},
	"string-key": {"\"k\"", "\"key\"", "\"id\""}, "string-argument": {"\"s\"", "\"t\"", "\"uv\""},
	"unary-operator": {"not ", "#", "-"}, "binary-operator": {" + ", " - ", " * ", " .. ", " % "},
}

// c20Mutate returns a copy of ps that differs in exactly one mutable leaf, and the kind of that leaf.
func c20Mutate(r *Rng, ps []c20Part, vars []string) ([]c20Part, string) {
	var idx []int
	for i, p := range ps {
		if p.Kind != "" {
			idx = append(idx, i)
		}
	}
	i := idx[r.Intn(len(idx))]
	out := append([]c20Part(nil), ps...)
	p := out[i]
	alts := c20Alternatives[p.Kind]
	switch p.Kind {
	case "variable":
		alts = vars
	case "number-key", "number-argument", "number-operand":
		alts = []string{"1", "2", "3", "17", "42", "100"}
	}
	for {
		t := r.Pick(alts)
		if t != p.Text {
			out[i].Text = t
			return out, p.Kind
		}
	}
}

func c20Join(ps []c20Part) string {
	var sb strings.Builder
	for _, p := range ps {
		sb.WriteString(p.Text)
	}
	return sb.String()
}

// c20GeneratedSite plants one generated near-miss.
func c20GeneratedSite(r *Rng, n int, a, b, cc string, ctxs []func(e string, n int) string) c20Site {
	vars := []string{a, b, cc}
	none := map[int]int{}
	switch r.Intn(6) {
	case 0: // 14: comparison / logical operator between two different operands
		t := c20GenTerm(r, vars, 1)
		t2, kind := c20Mutate(r, t, vars)
		op := r.Pick([]string{"==", "~=", "<", "<=", ">", ">=", "and", "or"})
		e := "(" + c20Join(t) + ") " + op + " (" + c20Join(t2) + ")"
		if r.Bool() {
			e = c20Join(t) + " " + op + " " + c20Join(t2)
		}
		return c20Site{Text: ctxs[r.Intn(len(ctxs))](e, n), Expect: none, Label: "generated-near-same-operands|differs-in-" + kind}
	case 1: // 19: if / elseif with different conditions
		t := c20GenTerm(r, vars, 1)
		t2, kind := c20Mutate(r, t, vars)
		if r.Bool() {
			return c20Site{Text: fmt.Sprintf("if %s then sink(1) elseif %s then sink(2) end", c20Join(t), c20Join(t2)), Expect: none, Label: "generated-near-dup-if|differs-in-" + kind}
		}
		return c20Site{Text: fmt.Sprintf("if %s then sink(1) elseif %s == nil then sink(2) elseif %s then sink(3) end", c20Join(t), cc, c20Join(t2)), Expect: none,
			Label: "generated-near-dup-if-third|differs-in-" + kind}
	case 2: // 20: assignment whose two sides differ
		t := c20GenChain(r, vars, 1, true)
		t2, kind := c20Mutate(r, t, vars)
		return c20Site{Text: fmt.Sprintf("%s = %s", c20Join(t), c20Join(t2)), Expect: none, Label: "generated-near-self-assign|differs-in-" + kind}
	case 4: // 13: generated parameter lists, placeholders `_` anywhere
		pool := []string{"p", "q", "r", "s", "_", "_"}
		k := r.Range(2, 6)
		var ps []string
		cnt := map[string]int{}
		for j := 0; j < k; j++ {
			x := r.Pick(pool)
			ps = append(ps, x)
			cnt[x]++
		}
		if r.Bool() {
			ps = append(ps, "...")
		}
		dups, more := 0, false
		for nme, n := range cnt {
			if nme == "_" {
				continue
			}
			if n == 2 {
				dups++
			} else if n > 2 {
				more = true
			}
		}
		exp := map[int]int{}
		label := "generated-params-distinct"
		switch {
		case more || dups > 1:
			exp[13] = expDC // how often a name repeated three times, or two different repeated names, are reported is not specified
			label = "dc-generated-params-several-repeats"
		case dups == 1:
			exp[13] = 1
			label = "generated-params-one-repeat"
			if cnt["_"] > 0 {
				label = "generated-params-one-repeat-with-placeholders"
			}
		}
		if cnt["_"] > 1 && exp[13] == 0 {
			label = "generated-params-placeholders-only-repeat"
		}
		form := r.Pick([]string{"local function gp%d(%s) return 1 end", "ggp%d = function(%s) return 1 end", "sink(%d, function(%s) return 2 end)"})
		return c20Site{Text: fmt.Sprintf(form, n, strings.Join(ps, ", ")), Expect: exp, Label: label}
	default: // 20, pairwise
		t := c20GenChain(r, vars, 1, true)
		t2, kind := c20Mutate(r, t, vars)
		if r.Bool() {
			// the differing pair first, an identical pair last
			return c20Site{Text: fmt.Sprintf("%s, %s.tmp = %s, %s.tmp", c20Join(t), cc, c20Join(t2), cc), Expect: none, Label: "generated-near-self-assign-pairwise-identical-last|differs-in-" + kind}
		}
		return c20Site{Text: fmt.Sprintf("%s, %s.tmp = %s, %s.tmp2", c20Join(t), cc, c20Join(t2), cc), Expect: none, Label: "generated-near-self-assign-pairwise|differs-in-" + kind}
	}
}

func runC20(c *Ctx) {
	nFiles := c.N(6000, 300000)
	root := NewRng(c.Seed).Fork(20)
	pats := c20ExprPatterns()
	ctxs := c20Contexts()
	parallel(nFiles/10+1, 14, func(bi int) {
		files := map[string]string{}
		sites := map[string][]c20Site{} // rel -> site per planted line
		lines := map[string][]int{}     // rel -> line number of each site
		for k := 0; k < 10; k++ {
			fi := bi*10 + k
			if fi >= nFiles {
				break
			}
			r := root.Fork(uint64(fi))
			rel := fmt.Sprintf("p%d.lua", fi)
			var sb strings.Builder
			line := 0
			emit := func(s string) { sb.WriteString(s + "\n"); line++ }
			emit("local sink = print")
			nSites := r.Range(8, 20)
			depthOpen := 0
			for n := 0; n < nSites; n++ {
				// variables of this site: declared as locals right before (so that other checks stay quiet)
				a, b, cc := fmt.Sprintf("va%d", n), fmt.Sprintf("vb%d", n), fmt.Sprintf("vc%d", n)
				emit(fmt.Sprintf("local %s, %s, %s = sink(1), sink(2), sink(3)", a, b, cc))
				// random nesting before the site
				if depthOpen < 3 && r.Chance(1, 3) {
					switch r.Intn(5) {
					case 0:
						emit("do")
					case 1:
						emit(fmt.Sprintf("if %s then", cc))
					case 2:
						emit(fmt.Sprintf("for i%d = 1, 2 do", n))
					case 3:
						emit(fmt.Sprintf("local function nest%d(...)", n))
					case 4:
						emit(fmt.Sprintf("while %s do", cc))
					}
					depthOpen++
				}
				var st c20Site
				if r.Chance(1, 3) {
					st = c20GeneratedSite(r, n, a, b, cc, ctxs)
				} else if r.Bool() {
					p := pats[r.Intn(len(pats))]
					ctx := ctxs[r.Intn(len(ctxs))]
					st = c20Site{Text: ctx(p.Exp(a, b), n), Expect: p.Exp2, Label: p.Label}
					if r.Chance(1, 6) {
						// the expression as a surplus value of an assignment / declaration with more values than targets: that
						// statement is itself an instance of check 7 / 8, and the pattern inside the surplus value still counts
						exp := map[int]int{}
						for k, v := range p.Exp2 {
							exp[k] = v
						}
						pad := strings.Repeat("2, ", r.Intn(2))
						if r.Bool() {
							exp[7] = 1
							st = c20Site{Text: fmt.Sprintf("%s = 1, %s%s", cc, pad, p.Exp(a, b)), Expect: exp, Label: p.Label + "|as-surplus-assignment-value"}
						} else {
							exp[8] = 1
							st = c20Site{Text: fmt.Sprintf("local sv%d = 1, %s%s", n, pad, p.Exp(a, b)), Expect: exp, Label: p.Label + "|as-surplus-local-value"}
						}
					}
				} else {
					ss := c20StatementSites(r, n)
					st = ss[r.Intn(len(ss))]
				}
				sites[rel] = append(sites[rel], st)
				lines[rel] = append(lines[rel], line)
				emit(st.Text)
				emit(fmt.Sprintf("sink(%s, %s, %s)", a, b, cc))
				if depthOpen > 0 && r.Chance(1, 3) {
					emit("end")
					depthOpen--
				}
			}
			for depthOpen > 0 {
				emit("end")
				depthOpen--
			}
			files[rel] = sb.String()
			if pr := RParse([]byte(files[rel])); !pr.Valid() {
				panic("harness: C20 generator produced an invalid program: " + pr.Err + "\n" + files[rel])
			}
		}
		if len(files) == 0 {
			return
		}
		ws := c.NewWorkspace(files)
		defer ws.Remove()
		// a third of the batches run with exactly one of the ten checks switched off by the client's settings: that check
		// reports nothing, every other check reports what it reports with all checks on
		off := 0
		init := allOnInit()
		if ro := root.Fork(uint64(5000000 + bi)); ro.Chance(1, 3) {
			off = c20Types[ro.Intn(len(c20Types))]
			init[checkFlagNames[off]] = false
			c.Count("batches_with_one_check_off", 1)
		}
		offLabel := ""
		if off != 0 {
			offLabel = fmt.Sprintf("|check-%d-off", off)
		}
		srv, err := StartServer(ServerOpts{Root: ws.Root, Init: init, Tag: fmt.Sprintf("c20b%d", bi)})
		if err != nil {
			c.Inconclusive("server failed (C01's business): " + err.Error())
			if srv != nil {
				srv.Close()
			}
			return
		}
		view := srv.View()
		srv.Close()
		for rel, sts := range sites {
			c.Eval(1)
			ds := view[ws.URI(rel)]
			for si, st := range sts {
				ln := lines[rel][si]
				counts := map[int]int{}
				for _, d := range ds {
					if d.Range.Start.Line <= ln && ln <= d.Range.End.Line {
						counts[d.Type]++
					}
				}
				c.Count("sites_checked", 1)
				c.Distinct(st.Label + "|" + st.Text)
				for _, t := range c20Types {
					want, ok := st.Expect[t]
					if ok && want == expDC {
						c.Count("dont_care_expectations", 1)
						continue
					}
					if t == off {
						want = 0
					}
					c.Count("expectations_checked", 1)
					if want > 0 {
						c.Count("must_expectations", 1)
						if counts[t] == want {
							c.Count("must_expectations_met", 1)
						}
					}
					if counts[t] != want {
						kind := "missing"
						if counts[t] > want {
							kind = "extra"
						}
						c.Report(fmt.Sprintf("pattern|type%d|%s|%s%s", t, kind, st.Label, offLabel),
							fmt.Sprintf("site %q (%s%s) in %s line %d: expected %d diagnostics of type %d, got %d", st.Text, st.Label, offLabel, rel, ln, want, t, counts[t]),
							map[string]interface{}{"file": files[rel], "line": ln, "site": st.Text, "label": st.Label})
					}
				}
			}
		}
		if bi == 0 {
			for rel := range files {
				c.Sample(map[string]interface{}{"file": truncate(files[rel], 1200)})
				break
			}
		}
	})
	var labels []string
	for _, p := range pats {
		labels = append(labels, p.Label)
	}
	for _, s := range c20StatementSites(NewRng(1), 0) {
		labels = append(labels, s.Label)
	}
	sort.Strings(labels)
	c.Set("site_classes", labels)
	c.Finish("valid programs in which every planted site sits on its own line at a random nesting depth (blocks, loops, closures) and, for expression patterns, in a random "+
		"expression context (initialiser, call argument, table value, condition, closure body); 80 fixed site classes cover instances, near-misses and don't-care forms of checks "+
		"5,7,8,13,14,15,16,19,20,21, and generated near-misses pair a random operand expression (member / index / call / method chains, operators) with a copy that differs in "+
		"exactly one leaf (variable, member, method, key, argument, operator, literal) under a comparison, in if/elseif conditions and on the two sides of an assignment; per site the number of diagnostics of each of the ten types touching that line must equal the expectation (MUST n / MUST-NOT). "+
		"distinct_nontrivial = distinct (site class, site text) checked", 200)
}
