package main

// R-parse: independent recursive-descent recogniser / AST builder for the Lua 5.3 ∪ 5.4 grammar of the
// reference manual (§9). Shares no code with LuaHelper's parser.

import (
	"fmt"
)

type NK int

const (
	// expressions
	ENil NK = iota
	ETrue
	EFalse
	ENumber
	EString
	EVararg
	EFunction // Body
	EName     // Tok
	EIndex    // A[B] ; Flag = dot form (B is EString made from the name token, Tok = name token)
	ECall     // A(List) ; Flag = method call, Tok = method name
	EParen    // (A)
	ETable    // List of fields
	EBinop    // A op B, Tok = operator
	EUnop     // op A, Tok = operator
	// table fields
	FPos   // A
	FNamed // Tok = name, A
	FExpr  // [A] = B
	// statements
	SEmpty
	SAssign   // List = vars, List2 = exps
	SCall     // A
	SLabel    // Tok = name
	SBreak
	SGoto     // Tok = name
	SDo       // Body
	SWhile    // A, Body
	SRepeat   // Body, A
	SIf       // List = conditions, Blocks = then-blocks, Body = else block (may be nil)
	SForNum   // Names[0], A, B, C(optional), Body
	SForIn    // Names, List2 = exps, Body
	SFunction // Names = path (first is base), Tok = method name or nil (Flag = has method), Fn
	SLocalFunction
	SLocal  // Names, Attr, List2
	SReturn // List2
	NBlock  // List = stats
	NFuncBody
)

type Node struct {
	K      NK
	Tok    *Tok
	A, B, C *Node
	List   []*Node
	List2  []*Node
	Names  []*Tok
	Attr   []*Tok // parallel to Names for SLocal (nil entries when absent)
	Body   *Node
	Blocks []*Node
	Fn     *Node // NFuncBody: Names = params, Flag = vararg, Body
	Flag   bool
	First  *Tok // first token of the construct
	Last   *Tok // last token of the construct
}

type ParseResult struct {
	Lex      *LexResult
	Chunk    *Node
	Err      string // first syntax error ("" = syntactically valid)
	ErrOff   int
	Semantic []string // compile-time rules of real Lua outside the grammar that this chunk breaks
}

// Valid: accepted by the grammar (lexically and syntactically).
func (p *ParseResult) Valid() bool { return p.Err == "" }

type rparser struct {
	toks []*Tok
	i    int
	res  *ParseResult
	// function context for semantic-only rules
	fnVararg  []bool
	loopDepth []int
	depth     int
}

type parseAbort struct{}

func RParse(src []byte) *ParseResult {
	lx := RLex(src)
	res := &ParseResult{Lex: lx}
	if lx.Err != "" {
		res.Err = "lex: " + lx.Err
		res.ErrOff = lx.ErrOff
		return res
	}
	p := &rparser{toks: lx.Toks, res: res, fnVararg: []bool{true}, loopDepth: []int{0}}
	func() {
		defer func() {
			if r := recover(); r != nil {
				if _, ok := r.(parseAbort); !ok {
					panic(r)
				}
			}
		}()
		res.Chunk = p.block()
		if p.cur().K != TEOF {
			p.fail("unexpected %s, expected <eof>", p.cur())
		}
	}()
	if res.Err != "" {
		res.Chunk = nil
	} else {
		checkGotos(res)
	}
	return res
}

func (p *rparser) cur() *Tok { return p.toks[p.i] }
func (p *rparser) peek(n int) *Tok {
	if p.i+n < len(p.toks) {
		return p.toks[p.i+n]
	}
	return p.toks[len(p.toks)-1]
}
func (p *rparser) next() *Tok {
	t := p.toks[p.i]
	if p.i < len(p.toks)-1 {
		p.i++
	}
	return t
}
func (p *rparser) prev() *Tok { return p.toks[p.i-1] }

func (p *rparser) fail(f string, a ...interface{}) {
	if p.res.Err == "" {
		p.res.Err = fmt.Sprintf(f, a...)
		p.res.ErrOff = p.cur().Off
	}
	panic(parseAbort{})
}

func (p *rparser) isOp(s string) bool { t := p.cur(); return t.K == TOp && t.Text == s }
func (p *rparser) isKw(s string) bool { t := p.cur(); return t.K == TKeyword && t.Text == s }

func (p *rparser) acceptOp(s string) bool {
	if p.isOp(s) {
		p.next()
		return true
	}
	return false
}
func (p *rparser) acceptKw(s string) bool {
	if p.isKw(s) {
		p.next()
		return true
	}
	return false
}
func (p *rparser) expectOp(s string) *Tok {
	if !p.isOp(s) {
		p.fail("expected %q near %s", s, p.cur())
	}
	return p.next()
}
func (p *rparser) expectKw(s string) *Tok {
	if !p.isKw(s) {
		p.fail("expected %q near %s", s, p.cur())
	}
	return p.next()
}
func (p *rparser) expectName() *Tok {
	if p.cur().K != TName {
		p.fail("expected name near %s", p.cur())
	}
	return p.next()
}

func (p *rparser) enter() {
	p.depth++
	if p.depth > 190 {
		// real Lua limits C levels to 200; deeper nesting is "chunk has too many syntax levels" – don't-care zone
		p.res.Semantic = append(p.res.Semantic, "nesting deeper than 190 levels")
		if p.depth > 100000 {
			p.fail("nesting overflow")
		}
	}
}
func (p *rparser) leave() { p.depth-- }

func (p *rparser) blockEnd() bool {
	t := p.cur()
	if t.K == TEOF {
		return true
	}
	if t.K == TKeyword {
		switch t.Text {
		case "end", "else", "elseif", "until":
			return true
		}
	}
	return false
}

func (p *rparser) block() *Node {
	b := &Node{K: NBlock, First: p.cur()}
	for !p.blockEnd() {
		if p.isKw("return") {
			b.List = append(b.List, p.retstat())
			break
		}
		b.List = append(b.List, p.statement())
	}
	if p.i > 0 {
		b.Last = p.prev()
	} else {
		b.Last = p.cur()
	}
	return b
}

func (p *rparser) retstat() *Node {
	n := &Node{K: SReturn, First: p.cur(), Tok: p.cur()}
	p.expectKw("return")
	if !p.blockEnd() && !p.isOp(";") {
		n.List2 = p.explist()
	}
	p.acceptOp(";")
	n.Last = p.prev()
	return n
}

func (p *rparser) statement() *Node {
	p.enter()
	defer p.leave()
	t := p.cur()
	n := &Node{First: t, Tok: t}
	fin := func() *Node { n.Last = p.prev(); return n }
	if t.K == TOp {
		switch t.Text {
		case ";":
			p.next()
			n.K = SEmpty
			return fin()
		case "::":
			p.next()
			n.K = SLabel
			n.Tok = p.expectName()
			p.expectOp("::")
			return fin()
		}
	}
	if t.K == TKeyword {
		switch t.Text {
		case "break":
			p.next()
			n.K = SBreak
			if p.loopDepth[len(p.loopDepth)-1] == 0 {
				p.res.Semantic = append(p.res.Semantic, "break outside a loop")
			}
			return fin()
		case "goto":
			p.next()
			n.K = SGoto
			n.Tok = p.expectName()
			return fin()
		case "do":
			p.next()
			n.K = SDo
			n.Body = p.block()
			p.expectKw("end")
			return fin()
		case "while":
			p.next()
			n.K = SWhile
			n.A = p.exp()
			p.expectKw("do")
			n.Body = p.loopBlock()
			p.expectKw("end")
			return fin()
		case "repeat":
			p.next()
			n.K = SRepeat
			n.Body = p.loopBlock()
			p.expectKw("until")
			n.A = p.exp()
			return fin()
		case "if":
			p.next()
			n.K = SIf
			n.List = append(n.List, p.exp())
			p.expectKw("then")
			n.Blocks = append(n.Blocks, p.block())
			for {
				if p.acceptKw("elseif") {
					n.List = append(n.List, p.exp())
					p.expectKw("then")
					n.Blocks = append(n.Blocks, p.block())
					continue
				}
				if p.acceptKw("else") {
					n.Body = p.block()
				}
				break
			}
			p.expectKw("end")
			return fin()
		case "for":
			p.next()
			n1 := p.expectName()
			if p.isOp("=") {
				p.next()
				n.K = SForNum
				n.Names = []*Tok{n1}
				n.A = p.exp()
				p.expectOp(",")
				n.B = p.exp()
				if p.acceptOp(",") {
					n.C = p.exp()
				}
			} else {
				n.K = SForIn
				n.Names = []*Tok{n1}
				for p.acceptOp(",") {
					n.Names = append(n.Names, p.expectName())
				}
				p.expectKw("in")
				n.List2 = p.explist()
			}
			p.expectKw("do")
			n.Body = p.loopBlock()
			p.expectKw("end")
			return fin()
		case "function":
			p.next()
			n.K = SFunction
			n.Names = []*Tok{p.expectName()}
			for p.acceptOp(".") {
				n.Names = append(n.Names, p.expectName())
			}
			n.Tok = nil
			if p.acceptOp(":") {
				n.Tok = p.expectName()
				n.Flag = true
			}
			n.Fn = p.funcbody(t)
			return fin()
		case "local":
			p.next()
			if p.acceptKw("function") {
				n.K = SLocalFunction
				n.Names = []*Tok{p.expectName()}
				n.Fn = p.funcbody(t)
				return fin()
			}
			n.K = SLocal
			closes := 0
			for {
				n.Names = append(n.Names, p.expectName())
				var at *Tok
				if p.acceptOp("<") {
					at = p.expectName()
					p.expectOp(">")
					if at.Val != "const" && at.Val != "close" {
						p.res.Semantic = append(p.res.Semantic, "unknown attribute "+at.Val)
					}
					if at.Val == "close" {
						closes++
					}
				}
				n.Attr = append(n.Attr, at)
				if !p.acceptOp(",") {
					break
				}
			}
			if closes > 1 {
				p.res.Semantic = append(p.res.Semantic, "multiple to-be-closed variables in local list")
			}
			if p.acceptOp("=") {
				n.List2 = p.explist()
			}
			return fin()
		case "return":
			// only reachable when return is not last; block() handles it, so this is an error position
			p.fail("'return' must be the last statement")
		}
	}
	// exprstat: functioncall or assignment
	e := p.suffixedexp()
	if p.isOp("=") || p.isOp(",") {
		n.K = SAssign
		n.List = []*Node{e}
		for p.acceptOp(",") {
			n.List = append(n.List, p.suffixedexp())
		}
		for _, v := range n.List {
			if v.K != EName && v.K != EIndex {
				p.fail("cannot assign to this expression")
			}
		}
		p.expectOp("=")
		n.List2 = p.explist()
		return fin()
	}
	if e.K != ECall {
		p.fail("syntax error: expression is not a statement near %s", p.cur())
	}
	n.K = SCall
	n.A = e
	return fin()
}

func (p *rparser) loopBlock() *Node {
	p.loopDepth[len(p.loopDepth)-1]++
	b := p.block()
	p.loopDepth[len(p.loopDepth)-1]--
	return b
}

func (p *rparser) funcbody(first *Tok) *Node {
	fb := &Node{K: NFuncBody, First: first}
	p.expectOp("(")
	if !p.isOp(")") {
		for {
			if p.isOp("...") {
				p.next()
				fb.Flag = true
				break
			}
			fb.Names = append(fb.Names, p.expectName())
			if !p.acceptOp(",") {
				break
			}
		}
	}
	fb.Tok = p.expectOp(")")
	p.fnVararg = append(p.fnVararg, fb.Flag)
	p.loopDepth = append(p.loopDepth, 0)
	fb.Body = p.block()
	p.fnVararg = p.fnVararg[:len(p.fnVararg)-1]
	p.loopDepth = p.loopDepth[:len(p.loopDepth)-1]
	p.expectKw("end")
	fb.Last = p.prev()
	return fb
}

func (p *rparser) explist() []*Node {
	l := []*Node{p.exp()}
	for p.acceptOp(",") {
		l = append(l, p.exp())
	}
	return l
}

func (p *rparser) primaryexp() *Node {
	t := p.cur()
	if t.K == TName {
		p.next()
		return &Node{K: EName, Tok: t, First: t, Last: t}
	}
	if p.isOp("(") {
		p.next()
		e := p.exp()
		p.expectOp(")")
		return &Node{K: EParen, A: e, First: t, Last: p.prev(), Tok: t}
	}
	p.fail("unexpected symbol near %s", t)
	return nil
}

func (p *rparser) suffixedexp() *Node {
	p.enter()
	defer p.leave()
	e := p.primaryexp()
	for {
		t := p.cur()
		if t.K == TOp {
			switch t.Text {
			case ".":
				p.next()
				nm := p.expectName()
				key := &Node{K: EString, Tok: nm, First: nm, Last: nm}
				e = &Node{K: EIndex, A: e, B: key, Flag: true, Tok: nm, First: e.First, Last: nm}
				continue
			case "[":
				p.next()
				k := p.exp()
				p.expectOp("]")
				e = &Node{K: EIndex, A: e, B: k, Tok: t, First: e.First, Last: p.prev()}
				continue
			case ":":
				p.next()
				nm := p.expectName()
				args := p.callargs()
				e = &Node{K: ECall, A: e, List: args, Flag: true, Tok: nm, First: e.First, Last: p.prev()}
				continue
			case "(", "{":
				args := p.callargs()
				e = &Node{K: ECall, A: e, List: args, Tok: t, First: e.First, Last: p.prev()}
				continue
			}
		}
		if t.K == TString {
			args := p.callargs()
			e = &Node{K: ECall, A: e, List: args, Tok: t, First: e.First, Last: p.prev()}
			continue
		}
		return e
	}
}

func (p *rparser) callargs() []*Node {
	t := p.cur()
	if t.K == TString {
		p.next()
		return []*Node{{K: EString, Tok: t, First: t, Last: t}}
	}
	if p.isOp("{") {
		return []*Node{p.table()}
	}
	if p.isOp("(") {
		p.next()
		var args []*Node
		if !p.isOp(")") {
			args = p.explist()
		}
		p.expectOp(")")
		if args == nil {
			args = []*Node{}
		}
		return args
	}
	p.fail("function arguments expected near %s", t)
	return nil
}

func (p *rparser) table() *Node {
	t := p.expectOp("{")
	n := &Node{K: ETable, First: t, Tok: t}
	for !p.isOp("}") {
		c := p.cur()
		if c.K == TName && p.peek(1).K == TOp && p.peek(1).Text == "=" {
			p.next()
			p.next()
			v := p.exp()
			n.List = append(n.List, &Node{K: FNamed, Tok: c, A: v, First: c, Last: p.prev()})
		} else if p.isOp("[") {
			p.next()
			k := p.exp()
			p.expectOp("]")
			p.expectOp("=")
			v := p.exp()
			n.List = append(n.List, &Node{K: FExpr, A: k, B: v, First: c, Last: p.prev(), Tok: c})
		} else {
			v := p.exp()
			n.List = append(n.List, &Node{K: FPos, A: v, First: c, Last: p.prev(), Tok: c})
		}
		if !p.acceptOp(",") && !p.acceptOp(";") {
			break
		}
	}
	p.expectOp("}")
	n.Last = p.prev()
	return n
}

func (p *rparser) simpleexp() *Node {
	t := p.cur()
	mk := func(k NK) *Node { p.next(); return &Node{K: k, Tok: t, First: t, Last: t} }
	switch t.K {
	case TNumber:
		return mk(ENumber)
	case TString:
		return mk(EString)
	case TKeyword:
		switch t.Text {
		case "nil":
			return mk(ENil)
		case "true":
			return mk(ETrue)
		case "false":
			return mk(EFalse)
		case "function":
			p.next()
			fb := p.funcbody(t)
			return &Node{K: EFunction, Fn: fb, Tok: t, First: t, Last: p.prev()}
		}
	case TOp:
		switch t.Text {
		case "...":
			if !p.fnVararg[len(p.fnVararg)-1] {
				p.res.Semantic = append(p.res.Semantic, "'...' outside a vararg function")
			}
			return mk(EVararg)
		case "{":
			return p.table()
		}
	}
	return p.suffixedexp()
}

var binPrio = map[string][2]int{
	"or": {1, 1}, "and": {2, 2},
	"<": {3, 3}, ">": {3, 3}, "<=": {3, 3}, ">=": {3, 3}, "~=": {3, 3}, "==": {3, 3},
	"|": {4, 4}, "~": {5, 5}, "&": {6, 6}, "<<": {7, 7}, ">>": {7, 7},
	"..": {9, 8}, "+": {10, 10}, "-": {10, 10},
	"*": {11, 11}, "/": {11, 11}, "//": {11, 11}, "%": {11, 11},
	"^": {14, 13},
}

const unaryPrio = 12

func (p *rparser) binop() (string, bool) {
	t := p.cur()
	if t.K == TOp {
		if _, ok := binPrio[t.Text]; ok {
			return t.Text, true
		}
	}
	if t.K == TKeyword && (t.Text == "and" || t.Text == "or") {
		return t.Text, true
	}
	return "", false
}

func (p *rparser) exp() *Node { return p.subexp(0) }

func (p *rparser) subexp(limit int) *Node {
	p.enter()
	defer p.leave()
	var e *Node
	t := p.cur()
	if (t.K == TKeyword && t.Text == "not") || (t.K == TOp && (t.Text == "-" || t.Text == "#" || t.Text == "~")) {
		p.next()
		a := p.subexp(unaryPrio)
		e = &Node{K: EUnop, Tok: t, A: a, First: t, Last: p.prev()}
	} else {
		e = p.simpleexp()
	}
	for {
		op, ok := p.binop()
		if !ok {
			break
		}
		pr := binPrio[op]
		if pr[0] <= limit {
			break
		}
		ot := p.next()
		r := p.subexp(pr[1])
		e = &Node{K: EBinop, Tok: ot, A: e, B: r, First: e.First, Last: p.prev()}
	}
	return e
}

// ---------------------------------------------------------------------------------------------
// goto / label resolution (compile-time rules outside the grammar: undefined label, duplicate label,
// jump into the scope of a local).

type labelScope struct {
	labels map[string]int // label name -> statement index in block
	block  *Node
	cur    int // index of the statement currently being walked
}

func isVoidStat(s *Node) bool { return s.K == SLabel || s.K == SEmpty }

func checkGotos(res *ParseResult) {
	var walkFn func(fb *Node)
	var walkBlock func(b *Node, stack []*labelScope)
	var walkExp func(e *Node)
	walkExp = func(e *Node) {
		if e == nil {
			return
		}
		if e.K == EFunction {
			walkFn(e.Fn)
			return
		}
		walkExp(e.A)
		walkExp(e.B)
		walkExp(e.C)
		for _, x := range e.List {
			walkExp(x)
		}
	}
	walkFn = func(fb *Node) { walkBlock(fb.Body, nil) }
	walkBlock = func(b *Node, outer []*labelScope) {
		if b == nil {
			return
		}
		mine := &labelScope{labels: map[string]int{}, block: b}
		for i, s := range b.List {
			if s.K == SLabel {
				dup := false
				if _, ok := mine.labels[s.Tok.Val]; ok {
					dup = true
				}
				for _, m := range outer {
					if _, ok := m.labels[s.Tok.Val]; ok {
						dup = true
					}
				}
				if dup {
					res.Semantic = append(res.Semantic, "duplicate label "+s.Tok.Val)
				}
				mine.labels[s.Tok.Val] = i
			}
		}
		stack := append(append([]*labelScope{}, outer...), mine)
		for i, s := range b.List {
			mine.cur = i
			switch s.K {
			case SGoto:
				found := false
				for k := len(stack) - 1; k >= 0; k-- {
					sc := stack[k]
					li, ok := sc.labels[s.Tok.Val]
					if !ok {
						continue
					}
					found = true
					if li > sc.cur {
						// forward jump: no local may be declared between, unless the label ends the block
						atEnd := true
						for _, r := range sc.block.List[li:] {
							if !isVoidStat(r) {
								atEnd = false
							}
						}
						if !atEnd {
							for _, r := range sc.block.List[sc.cur+1 : li] {
								if r.K == SLocal || r.K == SLocalFunction {
									res.Semantic = append(res.Semantic, "goto "+s.Tok.Val+" jumps into the scope of a local")
								}
							}
						}
					}
					break
				}
				if !found {
					res.Semantic = append(res.Semantic, "no visible label for goto "+s.Tok.Val)
				}
			case SDo, SWhile, SRepeat, SForNum, SForIn:
				walkBlock(s.Body, stack)
				walkExp(s.A)
				walkExp(s.B)
				walkExp(s.C)
				for _, x := range s.List2 {
					walkExp(x)
				}
			case SIf:
				for _, bl := range s.Blocks {
					walkBlock(bl, stack)
				}
				walkBlock(s.Body, stack)
				for _, x := range s.List {
					walkExp(x)
				}
			case SFunction, SLocalFunction:
				walkFn(s.Fn)
			default:
				walkExp(s.A)
				for _, x := range s.List {
					walkExp(x)
				}
				for _, x := range s.List2 {
					walkExp(x)
				}
			}
		}
	}
	if res.Chunk != nil {
		walkBlock(res.Chunk, nil)
	}
}
