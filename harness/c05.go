package main

// C05 — go-to-definition follows Lua's lexical scoping.
// Monitor: textDocument/definition at both ends of every variable-name occurrence vs R-bind.

import (
	"path/filepath"
	"fmt"
	"time"
)

// startScopeServer writes the workspace, starts a server on it and opens every file.
func startScopeServer(c *Ctx, sw *ScopeWS, tag string) (*Workspace, *Server, error) {
	fmAll := sw.FileMap()
	fm0 := fmAll
	if sw.Late != "" {
		fm0 = map[string]string{}
		for k, v := range fmAll {
			if k != sw.Late {
				fm0[k] = v
			}
		}
	}
	ws := c.NewWorkspace(fm0)
	opts := ServerOpts{Root: ws.Root, Tag: tag}
	if len(sw.Roots) > 0 {
		opts.Root = filepath.Join(ws.Root, sw.Roots[0])
		for _, rt := range sw.Roots {
			opts.Folders = append(opts.Folders, filepath.Join(ws.Root, rt))
		}
	}
	srv, err := StartServer(opts)
	if err != nil {
		if srv != nil {
			err = fmt.Errorf("%v; stderr: %s", err, truncate(srv.StderrHead(600), 600))
			srv.Close()
		}
		ws.Remove()
		return nil, nil, err
	}
	if sw.Late != "" {
		// the last file appears on disk now; the event batch names a file the server knows first and the new file last
		ws.Write(sw.Late, fmAll[sw.Late])
		var evs []interface{}
		for _, f := range sw.Files {
			if f.Rel != sw.Late {
				evs = append(evs, map[string]interface{}{"uri": ws.URI(f.Rel), "type": 2})
				break
			}
		}
		evs = append(evs, map[string]interface{}{"uri": ws.URI(sw.Late), "type": 1})
		srv.Notify("workspace/didChangeWatchedFiles", map[string]interface{}{"changes": evs})
		if err := srv.Fence(); err != nil {
			srv.Close()
			ws.Remove()
			return nil, nil, err
		}
	}
	for _, f := range sw.Files {
		if sw.LazyOpen {
			break
		}
		srv.DidOpen(ws.URI(f.Rel), f.Text)
	}
	if err := srv.Fence(); err != nil {
		err = fmt.Errorf("%v; stderr: %s", err, truncate(srv.StderrHead(600), 600))
		srv.Close()
		ws.Remove()
		return nil, nil, err
	}
	return ws, srv, nil
}

// longSession: rounds of an unsaved edit followed by a save that puts the text on disk back in force (the file on disk never
// changes) - what a long editing session leaves behind in the server's caches of unsaved documents.
func longSession(srv *Server, ws *Workspace, rel, diskText string, rounds int) error {
	for k := 0; k < rounds; k++ {
		srv.DidChangeFull(ws.URI(rel), 1000+k, diskText+fmt.Sprintf("\n-- edit %d\n", k))
		srv.DidSave(ws.URI(rel), diskText)
	}
	return srv.Fence()
}

// lazyOpen opens the document of f now if the workspace is one whose documents are opened on first use.
func lazyOpen(srv *Server, ws *Workspace, sw *ScopeWS, f *SFile) {
	if sw.LazyOpen {
		srv.DidOpen(ws.URI(f.Rel), f.Text)
		srv.Fence()
	}
}

// queryable reports whether the occurrence is in the scope of the C05/C06/C11/C12 oracles.
func queryable(o *Occ) bool {
	n := o.Tok.Val
	if n == "self" || n == "_G" || n == "_ENV" {
		return false
	}
	if o.Decl != nil && o.Decl.Kind == DSelf {
		return false
	}
	return true
}

func runC05(c *Ctx) {
	nWS := c.N(600, 15000)
	root := NewRng(c.Seed).Fork(5)
	parallel(nWS, 14, func(i int) {
		r := root.Fork(uint64(i))
		sw := GenScopeWS(r, ScopeCfg{JoinPct: -1, GluePct: -1, Zoo: r.Fork(0x7a6f6f).Chance(1, 3)})
		if r.Fork(0x726f6f74).Chance(1, 8) {
			sw.Reroot([]string{"rootA", "rootB"}) // the files are spread over two workspace folders next to each other
			c.Count("multi_root_workspaces", 1)
		} else if len(sw.Files) >= 2 && r.Fork(0x73707264).Chance(1, 8) {
			sw.Spread()
			c.Count("workspaces_with_same_named_sub_directories", 1)
		}
		c.Eval(1)
		checkC05WS(c, sw, fmt.Sprintf("c05w%d", i))
		if i < 2 {
			c.Sample(map[string]interface{}{"files": sw.FileMap()})
		}
	})
	c.Finish("generated 2-4 file workspaces (nested blocks/functions, all loop forms, shadowing and re-declaration, upvalues, local functions, "+
		"repeat-until, method definitions, cross-file globals); textDocument/definition at both ends of every variable-name occurrence is "+
		"compared with the reference binder. distinct_nontrivial = distinct (file text, occurrence, cursor edge) with a definite expectation", 300)
}

func init() { wsChecks["C05"] = checkC05WS }

func checkC05WS(c *Ctx, sw *ScopeWS, tag string) {
	i := 0
	_ = i
	ws, srv, err := startScopeServer(c, sw, tag)
	if err != nil {
		c.Inconclusive("server failed on a generated workspace (C01's business): " + err.Error())
		return
	}
	defer ws.Remove()
	defer srv.Close()
	for _, f := range sw.Files {
		lazyOpen(srv, ws, sw, f)
		uri := ws.URI(f.Rel)
		for _, o := range f.Bind.Occs {
			if !queryable(o) {
				continue
			}
			for _, end := range []bool{false, true} {
				off := o.Tok.Off
				if end {
					off = o.Tok.End
				}
				p := posAt(f.Src, off)
				locs, rerr, err := srv.Definition(uri, p.Line, p.Character)
				if err != nil {
					srv.WaitDeath(5 * time.Second)
					c.Inconclusive(fmt.Sprintf("server stopped answering (C01's business): %v; witness %s; stderr: %s", err, c.CrashWitness(srv, sw.FileMap()), truncate(srv.StderrHead(400), 400)))
					return
				}
				c.Count("definition_queries", 1)
				name := o.Tok.Val
				cls := lineFeatures(f.Src, o.Tok) + "|" + occClass(f, o)
				witness := func() interface{} {
					return map[string]interface{}{"files": sw.FileMap(), "file": f.Rel, "position": p, "name": name, "answer": fmtLocs(ws, locs)}
				}
				if rerr != nil {
					c.Report("definition-error|"+cls, fmt.Sprintf("definition on %s at %s:%v returned error %s", name, f.Rel, p, rerr.Message), witness())
					continue
				}
				if o.Decl != nil {
					c.Distinct(f.Text + fmt.Sprint(o.Tok.Off, end))
					c.Count("bound_local_checked", 1)
					want := f.TokRange(o.Decl.Tok)
					if len(locs) != 1 || locs[0].URI != uri || locs[0].Range != want {
						c.Report(fmt.Sprintf("def-mismatch|%s", cls),
							fmt.Sprintf("definition of %s (%s) at %s:%v should be its %s declaration at %v, got %s", name, cls, f.Rel, p, declKindName(o), want, fmtLocs(ws, locs)), witness())
					}
					continue
				}
				if luaBuiltins[name] {
					c.Count("dont_care_builtin", 1)
					continue
				}
				defs := sw.GlobalDefs[name]
				if len(defs) == 0 {
					c.Count("undefined_global_checked", 1)
					c.Distinct(f.Text + fmt.Sprint(o.Tok.Off, end))
					if len(locs) != 0 {
						c.Report(fmt.Sprintf("def-mismatch|%s", cls),
							fmt.Sprintf("%s is never defined anywhere but definition at %s:%v returns %s", name, f.Rel, p, fmtLocs(ws, locs)), witness())
					}
					continue
				}
				c.Count("global_checked", 1)
				c.Distinct(f.Text + fmt.Sprint(o.Tok.Off, end))
				bad := len(locs) == 0
				for _, l := range locs {
					ok := false
					for _, d := range defs {
						if l.URI == ws.URI(d.File.Rel) && l.Range == d.File.TokRange(d.Occ.Tok) {
							ok = true
						}
					}
					if !ok {
						bad = true
					}
				}
				if bad {
					c.Report(fmt.Sprintf("def-mismatch|%s", cls),
						fmt.Sprintf("global %s at %s:%v should resolve to one of its %d definition sites, got %s", name, f.Rel, p, len(defs), fmtLocs(ws, locs)), witness())
				}
			}
		}
	}
}
