package main

// C16 — every documented annotation form is accepted with its structure intact.
// Monitors: (bulk) a worker process links LuaHelper's annotation parser and dumps what it understood
// for each generated line; the dump is compared with the S-expression of an independent model of the
// documented grammar (R-anno), and the printed type is parsed again (round trip). (end-to-end) type-18
// diagnostics and hover on neighbouring annotated variables through the real server.

import (
	"encoding/json"
	"fmt"
	"os"
	"os/exec"
	"path/filepath"
	"regexp"
	"strings"

	"luahelper-lsp/langserver/check/annotation/annotateast"
	"luahelper-lsp/langserver/check/annotation/annotateparser"
	"luahelper-lsp/langserver/check/compiler/lexer"
)

// ---------------------------------------------------------------------------------------------
// R-anno: model of the documented type grammar

type AType struct {
	Kind   string   // name union array table fun paren
	Name   string   // name
	Elems  []*AType // union alternatives / array item [0] / table key,value / paren [0]
	PNames []string // fun parameter names
	POpt   []bool
	PTypes []*AType
	Rets   []*AType
}

var c16Reserved = map[string]bool{"fun": true, "table": true, "type": true, "param": true, "field": true, "class": true, "return": true, "overload": true, "alias": true,
	"generic": true, "public": true, "protected": true, "private": true, "vararg": true, "const": true, "enum": true, "nil": true, "end": true, "start": true}

// c16Ident draws an identifier over the whole identifier alphabet ([A-Za-z_][A-Za-z0-9_]*), 1-8 characters.
func c16Ident(r *Rng) string {
	const first = "abcdefghijklmnopqrstuvwxyzABCDEFGHIJKLMNOPQRSTUVWXYZ_"
	const rest = first + "0123456789"
	for {
		n := r.Range(1, 8)
		b := make([]byte, n)
		b[0] = first[r.Intn(len(first))]
		for i := 1; i < n; i++ {
			b[i] = rest[r.Intn(len(rest))]
		}
		if id := string(b); !c16Reserved[id] && id != "_" {
			return id
		}
	}
}

// the default types of docs/manual/annotate.md and what every end-to-end file declares itself
var c16DeclaredNames = map[string]bool{"number": true, "string": true, "boolean": true, "any": true, "nil": true, "integer": true, "thread": true, "table": true, "void": true,
	"userdata": true, "lightuserdata": true, "function": true, "People": true, "Man": true, "Handler": true}

var annoNames = []string{"number", "string", "boolean", "any", "nil", "integer", "thread", "table", "void", "userdata", "lightuserdata", "function", "People", "Man", "Handler", "T"}

func genAType(r *Rng, depth int) *AType {
	if depth <= 0 {
		if r.Chance(1, 5) {
			return &AType{Kind: "name", Name: c16Ident(r)}
		}
		return &AType{Kind: "name", Name: r.Pick(annoNames)}
	}
	switch r.Intn(10) {
	case 0, 1, 2:
		if r.Chance(1, 5) {
			return &AType{Kind: "name", Name: c16Ident(r)}
		}
		return &AType{Kind: "name", Name: r.Pick(annoNames)}
	case 3, 4:
		n := r.Range(2, 3)
		u := &AType{Kind: "union"}
		for i := 0; i < n; i++ {
			e := genAType(r, depth-1)
			if e.Kind == "union" {
				e = &AType{Kind: "paren", Elems: []*AType{e}}
			}
			u.Elems = append(u.Elems, e)
		}
		return u
	case 5:
		it := genAType(r, depth-1)
		if it.Kind == "union" || it.Kind == "fun" {
			it = &AType{Kind: "paren", Elems: []*AType{it}}
		}
		return &AType{Kind: "array", Elems: []*AType{it}}
	case 6:
		if r.Chance(1, 4) {
			return &AType{Kind: "name", Name: "table"}
		}
		return &AType{Kind: "table", Elems: []*AType{genAType(r, depth-1), genAType(r, depth-1)}}
	case 7, 8:
		f := &AType{Kind: "fun"}
		np := r.Range(0, 3)
		for i := 0; i < np; i++ {
			if r.Chance(1, 3) {
				f.PNames = append(f.PNames, c16Ident(r)+fmt.Sprint(i))
			} else {
				f.PNames = append(f.PNames, fmt.Sprintf("p%d", i))
			}
			f.POpt = append(f.POpt, r.Chance(1, 5))
			f.PTypes = append(f.PTypes, genAType(r, depth-1))
		}
		if r.Chance(1, 4) {
			// the variable arguments as last parameter: fun(a: T, ...: U)
			f.PNames = append(f.PNames, "...")
			f.POpt = append(f.POpt, false)
			f.PTypes = append(f.PTypes, genAType(r, depth-1))
		}
		nr := r.Range(0, 2)
		for i := 0; i < nr; i++ {
			f.Rets = append(f.Rets, genAType(r, depth-1))
		}
		return f
	default:
		return &AType{Kind: "paren", Elems: []*AType{genAType(r, depth-1)}}
	}
}

// Render writes the type in the documented syntax. A fun type that has a return list is only written
// bare when it is the whole type of the line: nested in a union, a parameter list, table<...>, a
// return list or followed by ", T" its return list would swallow what follows (the documented
// grammar is ambiguous there), so it is parenthesised.
func (t *AType) Render(r *Rng) string { return t.render(r, true) }

func (t *AType) render(r *Rng, top bool) string {
	sp := func() string {
		if r != nil && r.Chance(1, 4) {
			return ""
		}
		return " "
	}
	switch t.Kind {
	case "name":
		return t.Name
	case "union":
		var ps []string
		for _, e := range t.Elems {
			ps = append(ps, e.render(r, false))
		}
		return strings.Join(ps, sp()+"|"+sp())
	case "array":
		return t.Elems[0].render(r, false) + "[]"
	case "table":
		return "table<" + t.Elems[0].render(r, false) + "," + sp() + t.Elems[1].render(r, false) + ">"
	case "paren":
		return "(" + t.Elems[0].render(r, false) + ")"
	case "fun":
		if !top && len(t.Rets) > 0 {
			return "(" + t.render(r, true) + ")"
		}
		s := "fun("
		for i, n := range t.PNames {
			if i > 0 {
				s += "," + sp()
			}
			s += n
			if t.POpt[i] {
				s += "?"
			}
			s += sp() + ":" + sp() + t.PTypes[i].render(r, false)
		}
		s += ")"
		for i, rt := range t.Rets {
			if i == 0 {
				s += sp() + ":" + sp()
			} else {
				s += "," + sp()
			}
			// a union return that is followed by another return, or a fun return, is parenthesised to stay unambiguous
			rs := rt.render(r, false)
			if rt.Kind == "fun" {
				rs = "(" + rs + ")"
			}
			s += rs
		}
		return s
	}
	return "?"
}

// Sexp is the canonical structure (parentheses vanish, unions are flattened, one-element unions unwrap).
func (t *AType) Sexp() string {
	switch t.Kind {
	case "name":
		return "N:" + t.Name
	case "paren":
		return t.Elems[0].Sexp()
	case "union":
		var ps []string
		var flat func(x *AType)
		flat = func(x *AType) {
			if x.Kind == "paren" {
				flat(x.Elems[0])
				return
			}
			if x.Kind == "union" {
				for _, e := range x.Elems {
					flat(e)
				}
				return
			}
			ps = append(ps, x.Sexp())
		}
		flat(t)
		if len(ps) == 1 {
			return ps[0]
		}
		return "U(" + strings.Join(ps, ",") + ")"
	case "array":
		return "A(" + t.Elems[0].Sexp() + ")"
	case "table":
		return "T(" + t.Elems[0].Sexp() + "," + t.Elems[1].Sexp() + ")"
	case "fun":
		var ps, rs []string
		for i, n := range t.PNames {
			o := ""
			if t.POpt[i] {
				o = "?"
			}
			ps = append(ps, n+o+":"+t.PTypes[i].Sexp())
		}
		for _, rt := range t.Rets {
			rs = append(rs, rt.Sexp())
		}
		return "F(" + strings.Join(ps, ",") + ";" + strings.Join(rs, ",") + ")"
	}
	return "?"
}

// hasFun: the tool prints fun types as function(...), which is not the documented input syntax
func (t *AType) hasFun() bool {
	if t.Kind == "fun" {
		return true
	}
	for _, e := range t.Elems {
		if e.hasFun() {
			return true
		}
	}
	return false
}

// ---------------------------------------------------------------------------------------------
// dump of LuaHelper's annotateast values into the same S-expression language

func dumpLHType(t annotateast.Type) string {
	switch x := t.(type) {
	case *annotateast.NormalType:
		return "N:" + x.StrName
	case *annotateast.MultiType:
		var ps []string
		var flat func(m *annotateast.MultiType)
		flat = func(m *annotateast.MultiType) {
			for _, e := range m.TypeList {
				if mm, ok := e.(*annotateast.MultiType); ok {
					flat(mm)
				} else {
					ps = append(ps, dumpLHType(e))
				}
			}
		}
		flat(x)
		if len(ps) == 1 {
			return ps[0]
		}
		return "U(" + strings.Join(ps, ",") + ")"
	case *annotateast.ArrayType:
		return "A(" + dumpLHType(x.ItemType) + ")"
	case *annotateast.TableType:
		if x.EmptyFlag {
			return "N:table"
		}
		return "T(" + dumpLHType(x.KeyType) + "," + dumpLHType(x.ValueType) + ")"
	case *annotateast.FuncType:
		var ps, rs []string
		for i, n := range x.ParamNameList {
			o := ""
			if i < len(x.ParamOptionList) && x.ParamOptionList[i] {
				o = "?"
			}
			pt := "?"
			if i < len(x.ParamTypeList) {
				pt = dumpLHType(x.ParamTypeList[i])
			}
			ps = append(ps, n+o+":"+pt)
		}
		for _, rt := range x.ReturnTypeList {
			rs = append(rs, dumpLHType(rt))
		}
		return "F(" + strings.Join(ps, ",") + ";" + strings.Join(rs, ",") + ")"
	case *annotateast.ConstType:
		return "C:" + x.Name
	case nil:
		return "nil"
	}
	return fmt.Sprintf("?%T", t)
}

func dumpLHState(st annotateast.AnnotateState) string {
	tl := func(ts []annotateast.Type) string {
		var ps []string
		for _, t := range ts {
			ps = append(ps, dumpLHType(t))
		}
		return strings.Join(ps, ",")
	}
	switch x := st.(type) {
	case *annotateast.AnnotateTypeState:
		return "type[" + tl(x.ListType) + "]"
	case *annotateast.AnnotateClassState:
		return "class[" + x.Name + ":" + strings.Join(x.ParentNameList, ",") + "]"
	case *annotateast.AnnotateFieldState:
		vis := map[annotateast.FieldScopeType]string{}
		_ = vis
		return fmt.Sprintf("field[%d %s %s]", x.FieldScopeType, x.Name, dumpLHType(x.FiledType))
	case *annotateast.AnnotateParamState:
		o := ""
		if x.IsOptional {
			o = "?"
		}
		return "param[" + x.Name + o + " " + dumpLHType(x.ParamType) + "]"
	case *annotateast.AnnotateReturnState:
		var ps []string
		for i, t := range x.ReturnTypeList {
			o := ""
			if i < len(x.ReturnOptionList) && x.ReturnOptionList[i] {
				o = "?"
			}
			ps = append(ps, dumpLHType(t)+o)
		}
		return "return[" + strings.Join(ps, ",") + "]"
	case *annotateast.AnnotateAliasState:
		return "alias[" + x.Name + " " + dumpLHType(x.AliasType) + "]"
	case *annotateast.AnnotateGenericState:
		var ps []string
		for i, n := range x.NameList {
			p := ""
			if i < len(x.ParentNameList) {
				p = x.ParentNameList[i]
			}
			ps = append(ps, n+":"+p)
		}
		return "generic[" + strings.Join(ps, ",") + "]"
	case *annotateast.AnnotateOverloadState:
		return "overload[" + dumpLHType(x.OverFunType) + "]"
	case *annotateast.AnnotateVarargState:
		return "vararg[" + dumpLHType(x.VarargType) + "]"
	}
	return fmt.Sprintf("?%T", st)
}

type c16Case struct {
	Kind    string `json:"kind"`
	Line    string `json:"line"`     // the comment as written, starting with ---@
	Want    string `json:"want"`     // expected dump
	TypeSrc string `json:"type_src"` // for round trip: the first type as written ("" = none)
	RTrip   bool   `json:"round_trip"`
	Depth   int    `json:"depth"`
}

type c16Out struct {
	Dump    string `json:"dump"`
	Err     string `json:"err"`
	Printed string `json:"printed"`
	Redump  string `json:"redump"`
	RErr    string `json:"rerr"`
	Panic   string `json:"panic"`
}

func c16ParseLine(line string) (dump, perr string, first annotateast.Type) {
	// the lexer hands the parser the comment text after the leading "--"
	str := strings.TrimPrefix(line, "--")
	ci := &lexer.CommentInfo{LineVec: []lexer.CommentLine{{Str: str, Line: 1, Col: 2}}, ShortFlag: true, HeadFlag: true}
	frag, errs := annotateparser.ParseCommentFragment(ci)
	if len(errs) > 0 {
		return "", fmt.Sprintf("%d:%s", errs[0].ErrType, errs[0].ShowStr), nil
	}
	if len(frag.Stats) == 0 {
		return "(no statement)", "", nil
	}
	st := frag.Stats[0]
	switch x := st.(type) {
	case *annotateast.AnnotateTypeState:
		if len(x.ListType) > 0 {
			first = x.ListType[0]
		}
	case *annotateast.AnnotateFieldState:
		first = x.FiledType
	case *annotateast.AnnotateParamState:
		first = x.ParamType
	case *annotateast.AnnotateAliasState:
		first = x.AliasType
	case *annotateast.AnnotateReturnState:
		if len(x.ReturnTypeList) > 0 {
			first = x.ReturnTypeList[0]
		}
	case *annotateast.AnnotateVarargState:
		first = x.VarargType
	}
	return dumpLHState(st), "", first
}

func init() {
	// worker: reads a JSON array of c16Case from the file named by args[0], writes a JSON array of c16Out to args[1]
	special["worker16"] = func(args []string) int {
		b, err := os.ReadFile(args[0])
		if err != nil {
			return 2
		}
		var cases []c16Case
		json.Unmarshal(b, &cases)
		outs := make([]c16Out, len(cases))
		for i, cs := range cases {
			func() {
				defer func() {
					if r := recover(); r != nil {
						outs[i].Panic = fmt.Sprint(r)
					}
				}()
				d, e, first := c16ParseLine(cs.Line)
				outs[i].Dump, outs[i].Err = d, e
				if cs.RTrip && first != nil && e == "" {
					outs[i].Printed = annotateast.TypeConvertStr(first)
					d2, e2, f2 := c16ParseLine("---@type " + outs[i].Printed)
					_ = d2
					outs[i].RErr = e2
					if f2 != nil {
						outs[i].Redump = dumpLHType(f2)
					}
					outs[i].Dump = d + "\x00" + dumpLHType(first)
				}
			}()
		}
		ob, _ := json.Marshal(outs)
		os.WriteFile(args[1], ob, 0o644)
		return 0
	}
}

func c16GenCase(r *Rng) c16Case {
	depth := r.Range(0, 4)
	cmt := ""
	if r.Chance(1, 3) {
		cmt = " @" + r.Pick([]string{"a comment", "注释 说明", "x | y [] <>", "fun(a:b)"})
	}
	t := genAType(r, depth)
	ts := t.Render(r)
	switch r.Intn(10) {
	case 0, 1:
		n := r.Range(1, 3)
		types := []*AType{t}
		srcs := []string{ts}
		for i := 1; i < n; i++ {
			t2 := genAType(r, depth)
			types = append(types, t2)
			srcs = append(srcs, t2.Render(r))
		}
		if n > 1 {
			for i := range types {
				srcs[i] = types[i].render(r, false)
			}
		}
		var want []string
		for _, x := range types {
			want = append(want, x.Sexp())
		}
		// a fun type followed by ", T" is ambiguous with a second return of the fun: keep fun types last or alone
		for i := 0; i < len(types)-1; i++ {
			if types[i].hasFunAtEnd() {
				types = types[:1]
				srcs = srcs[:1]
				want = want[:1]
				break
			}
		}
		return c16Case{Kind: "type", Line: "---@type " + strings.Join(srcs, ", ") + cmt, Want: "type[" + strings.Join(want, ",") + "]", TypeSrc: srcs[0], RTrip: !types[0].hasFun(), Depth: depth}
	case 2:
		name := r.Pick([]string{"Man", "People", "Cls1", c16Ident(r)})
		var parents []string
		for i := 0; i < r.Range(0, 3); i++ {
			if r.Bool() {
				parents = append(parents, c16Ident(r)+fmt.Sprint(i))
			} else {
				parents = append(parents, fmt.Sprintf("Par%d", i))
			}
		}
		line := "---@class " + name
		if len(parents) > 0 {
			line += " : " + strings.Join(parents, ", ")
		}
		return c16Case{Kind: "class", Line: line + cmt, Want: "class[" + name + ":" + strings.Join(parents, ",") + "]", Depth: 0}
	case 3, 4:
		vis := r.Pick([]string{"", "public ", "protected ", "private "})
		code := map[string]int{"": 0, "public ": 0, "protected ": 1, "private ": 2}
		_ = code
		fname := r.Pick([]string{"name", "age", "callback", "items", c16Ident(r), c16Ident(r)})
		return c16Case{Kind: "field", Line: "---@field " + vis + fname + " " + ts + cmt, Want: "field[VIS " + fname + " " + t.Sexp() + "]", TypeSrc: ts, RTrip: !t.hasFun(), Depth: depth}
	case 5:
		opt := ""
		if r.Chance(1, 4) {
			opt = "?"
		}
		if r.Chance(1, 6) {
			// the annotation of a function's variable arguments
			return c16Case{Kind: "param", Line: "---@param ... " + ts + cmt, Want: "param[... " + t.Sexp() + "]", TypeSrc: ts, RTrip: !t.hasFun(), Depth: depth}
		}
		return c16Case{Kind: "param", Line: "---@param pname" + opt + " " + ts + cmt, Want: "param[pname" + opt + " " + t.Sexp() + "]", TypeSrc: ts, RTrip: !t.hasFun(), Depth: depth}
	case 6:
		n := r.Range(1, 3)
		types := []*AType{t}
		srcs := []string{ts}
		for i := 1; i < n; i++ {
			t2 := genAType(r, depth)
			types = append(types, t2)
			srcs = append(srcs, t2.Render(r))
		}
		if n > 1 {
			for i := range types {
				srcs[i] = types[i].render(r, false)
			}
		}
		var want []string
		for i, x := range types {
			w := x.Sexp()
			// an optional marker after any of the listed types, not only the last one
			if !x.hasFunAtEnd() && r.Chance(1, 4) {
				srcs[i] += "?"
				w += "?"
			}
			want = append(want, w)
		}
		// a fun type followed by ", T" is ambiguous with a second return of the fun: keep fun types last or alone
		for i := 0; i < len(types)-1; i++ {
			if types[i].hasFunAtEnd() {
				types = types[:1]
				srcs = srcs[:1]
				want = want[:1]
				break
			}
		}
		return c16Case{Kind: "return", Line: "---@return " + strings.Join(srcs, ", ") + cmt, Want: "return[" + strings.Join(want, ",") + "]", TypeSrc: srcs[0], RTrip: !types[0].hasFun(), Depth: depth}
	case 7:
		return c16Case{Kind: "alias", Line: "---@alias NewName " + ts + cmt, Want: "alias[NewName " + t.Sexp() + "]", TypeSrc: ts, RTrip: !t.hasFun(), Depth: depth}
	case 8:
		n := r.Range(1, 3)
		var ps, want []string
		for i := 0; i < n; i++ {
			g := fmt.Sprintf("G%d", i)
			if r.Bool() {
				ps = append(ps, g+" : Parent"+fmt.Sprint(i))
				want = append(want, g+":Parent"+fmt.Sprint(i))
			} else {
				ps = append(ps, g)
				want = append(want, g+":")
			}
		}
		return c16Case{Kind: "generic", Line: "---@generic " + strings.Join(ps, ", ") + cmt, Want: "generic[" + strings.Join(want, ",") + "]"}
	default:
		if r.Bool() {
			f := genAType(r, depth)
			for f.Kind != "fun" {
				f = &AType{Kind: "fun", PNames: []string{"a"}, POpt: []bool{false}, PTypes: []*AType{f}, Rets: nil}
			}
			return c16Case{Kind: "overload", Line: "---@overload " + f.Render(r) + cmt, Want: "overload[" + f.Sexp() + "]", Depth: depth}
		}
		return c16Case{Kind: "vararg", Line: "---@vararg " + ts + cmt, Want: "vararg[" + t.Sexp() + "]", TypeSrc: ts, RTrip: !t.hasFun(), Depth: depth}
	}
}

// hasFunAtEnd: the rendered text ends inside a fun type's return list (a following ", T" would be ambiguous)
func (t *AType) hasFunAtEnd() bool {
	switch t.Kind {
	case "fun":
		return true
	case "union":
		return t.Elems[len(t.Elems)-1].hasFunAtEnd()
	}
	return false
}

func c16Corrupt(r *Rng, line string) (string, string) {
	switch r.Intn(9) {
	case 7:
		// a stray quote where a token starts (after a blank): a string that is not closed before the end of the line
		var at []int
		for i := 9; i < len(line); i++ {
			if line[i-1] == ' ' && line[i] != ' ' {
				at = append(at, i)
			}
		}
		if len(at) > 0 {
			i := at[r.Intn(len(at))]
			return line[:i] + r.Pick([]string{"'", "\""}) + line[i:], "stray-quote"
		}
	case 8:
		return line + r.Pick([]string{" '", " \"", " | 'rw", " \"off"}), "unclosed-string-at-end"
	case 0:
		return strings.Replace(line, ">", "", 1), "drop-gt"
	case 1:
		return strings.Replace(line, ")", "", 1), "drop-rparen"
	case 2:
		return strings.Replace(line, "[]", "[", 1), "drop-rbracket"
	case 3:
		if i := strings.Index(line, "|"); i > 0 {
			return line[:i+1], "union-missing-right-side"
		}
	case 4:
		if strings.HasPrefix(line, "---@param") {
			return "---@param", "param-without-operand"
		}
		if strings.HasPrefix(line, "---@field") {
			return "---@field", "field-without-operand"
		}
		if strings.HasPrefix(line, "---@alias") {
			return "---@alias", "alias-without-operand"
		}
	case 5:
		return strings.Replace(line, "<", "<<", 1), "double-lt"
	}
	return line + " |", "trailing-bar"
}

func runC16(c *Ctx) {
	nCases := c.N(40000, 4000000)
	root := NewRng(c.Seed).Fork(16)
	self, _ := os.Executable()
	const batch = 4000
	nb := (nCases + batch - 1) / batch
	kindSeen := map[string]int{}
	parallel(nb, 14, func(bi int) {
		var cases []c16Case
		for i := 0; i < batch && bi*batch+i < nCases; i++ {
			cases = append(cases, c16GenCase(root.Fork(uint64(bi*batch+i))))
		}
		in := filepath.Join(c.Tmp, fmt.Sprintf("c16in%d.json", bi))
		out := filepath.Join(c.Tmp, fmt.Sprintf("c16out%d.json", bi))
		b, _ := json.Marshal(cases)
		os.WriteFile(in, b, 0o644)
		cmd := exec.Command(self, "worker16", in, out)
		cmd.Env = os.Environ()
		if msg, err := cmd.CombinedOutput(); err != nil {
			c.Report("annotation-parser-worker-died", "the annotation parser killed the worker process: "+truncate(string(msg), 500), map[string]interface{}{"batch": bi, "first_line": cases[0].Line})
			return
		}
		ob, err := os.ReadFile(out)
		os.Remove(in)
		os.Remove(out)
		var outs []c16Out
		if err != nil || json.Unmarshal(ob, &outs) != nil || len(outs) != len(cases) {
			c.Inconclusive("worker output unreadable")
			return
		}
		for i, cs := range cases {
			o := outs[i]
			c.Eval(1)
			c.mu.Lock()
			kindSeen[cs.Kind]++
			c.mu.Unlock()
			c.Distinct(cs.Line)
			if o.Panic != "" {
				c.Report("annotation-parser-panic|"+cs.Kind, fmt.Sprintf("parsing %q panicked: %s", cs.Line, o.Panic), cs)
				continue
			}
			if o.Err != "" {
				c.Report(fmt.Sprintf("conformant-line-rejected|%s|%s", cs.Kind, annoShape(cs)), fmt.Sprintf("documented form %q is rejected: %s", cs.Line, o.Err), cs)
				continue
			}
			parts := strings.SplitN(o.Dump, "\x00", 2)
			got := parts[0]
			want := cs.Want
			if cs.Kind == "field" {
				// visibility code is checked separately below: normalise
				if i := strings.Index(got, " "); i > 0 {
					got = "field[VIS" + got[i:]
				}
			}
			c.Count("structures_compared", 1)
			if got != want {
				c.Report(fmt.Sprintf("structure-differs|%s|%s", cs.Kind, annoShape(cs)), fmt.Sprintf("%q understood as %s, documented structure is %s", cs.Line, got, want), cs)
				continue
			}
			if cs.RTrip && len(parts) == 2 {
				c.Count("round_trips", 1)
				if o.RErr != "" || o.Redump != parts[1] {
					c.Report(fmt.Sprintf("round-trip|%s", annoShape(cs)), fmt.Sprintf("type %q prints as %q which reads back as %s (%s), not %s", cs.TypeSrc, o.Printed, o.Redump, o.RErr, parts[1]), cs)
				}
			}
		}
		if bi == 0 {
			for i := 0; i < 4 && i < len(cases); i++ {
				c.Sample(map[string]interface{}{"line": cases[i].Line, "structure": cases[i].Want})
			}
		}
	})
	c.Set("lines_per_kind", kindSeen)
	// end-to-end through the server
	c16EndToEnd(c, root.Fork(424242))
	c16BlockNeighbours(c, root.Fork(434343))
	c16ReturnBlocks(c, root.Fork(444444))
	c.Finish("annotation lines derived from the documented grammar (type, class, field, param, return, alias, generic, overload, vararg; unions, arrays, table<K,V>, fun types, "+
		"parentheses, optional markers, trailing @comments; type depth 0-4) are parsed by LuaHelper's own annotation parser inside a worker process and the understood "+
		"structure is compared with an independent model of the documented grammar; printable types are printed and read again (round trip); end-to-end, conformant lines "+
		"must produce no type-18 diagnostic and single corruptions of one line may only add type-18 diagnostics on that line and must leave the hover of a neighbouring "+
		"annotated variable unchanged; a malformed line in the middle of a multi-line block (fields of a class, parameters of a "+
		"function) must leave what the other lines of that block declare unchanged; in blocks of several ---@return lines with one to three values each, "+
		"the n-th return value shown for the function has the n-th declared type and the trailing comment of the line that declares it. distinct_nontrivial = distinct annotation lines checked", 1000)
}

// annoShape: the most specific syntactic feature of the line (for signatures)
func annoShape(cs c16Case) string {
	s := cs.Want
	switch {
	case strings.Contains(cs.Line, "[][]"):
		return "nested-array"
	case strings.Contains(cs.Line, ")[]"):
		return "parenthesised-array"
	case strings.Contains(cs.Line, "?"):
		return "optional-marker"
	case strings.Contains(s, "F("):
		return "fun-type"
	case strings.Contains(s, "T("):
		return "table-type"
	case strings.Contains(s, "U("):
		return "union"
	case strings.Contains(s, "A("):
		return "array"
	}
	return "plain"
}

func c16EndToEnd(c *Ctx, r *Rng) {
	n := c.N(60, 6000)
	parallel(n, 12, func(i int) {
		rr := r.Fork(uint64(i))
		// a file: class definitions for every name used, then annotated statements, one annotation each
		var lines []string
		lines = append(lines, "---@class People", "---@field pname string", "local People = {}", "---@class Man : People", "local Man = {}", "---@alias Handler fun(a: number): string", "---@generic T", "---@param gp T", "function genericUser(gp) return gp end", "")
		// half of the files start with a use of an undeclared type: a warning that is not a syntax warning, on a line
		// before every generated annotation
		if rr.Fork(0x756e64).Bool() {
			lines = append(lines, "---@type NoSuchTypeC16", "local undeclaredTyped = nil", "print(undeclaredTyped)", "")
		}
		type anno struct {
			line int
			cs   c16Case
		}
		var annos []anno
		for k := 0; k < 6; k++ {
			cs := c16GenCase(rr)
			for cs.Kind == "class" || cs.Kind == "alias" || cs.Kind == "generic" || cs.Kind == "overload" || cs.Kind == "vararg" || cs.Kind == "field" || strings.Contains(cs.Line, " T") {
				cs = c16GenCase(rr)
			}
			annos = append(annos, anno{len(lines), cs})
			lines = append(lines, cs.Line)
			switch cs.Kind {
			case "type":
				lines = append(lines, fmt.Sprintf("local av%d = nil", k), fmt.Sprintf("print(av%d)", k))
			case "param":
				lines = append(lines, fmt.Sprintf("local function pf%d(pname) return pname end", k), fmt.Sprintf("print(pf%d)", k))
			case "return":
				lines = append(lines, fmt.Sprintf("local function rf%d() end", k), fmt.Sprintf("print(rf%d)", k))
			}
			lines = append(lines, "")
		}
		// the neighbour whose hover must stay the same
		lines = append(lines, "---@type People", "local neighbour = {}", "print(neighbour.pname)")
		hoverLine := len(lines) - 2
		base := strings.Join(lines, "\n") + "\n"
		observe := func(text string, tag string) (map[int][]string, string, bool) {
			ws := c.NewWorkspace(map[string]string{"anno.lua": text})
			defer ws.Remove()
			srv, err := StartServer(ServerOpts{Root: ws.Root, Tag: tag})
			if err != nil {
				if srv != nil {
					srv.Close()
				}
				return nil, "", false
			}
			defer srv.Close()
			srv.DidOpen(ws.URI("anno.lua"), text)
			hv, _, err := srv.Hover(ws.URI("anno.lua"), hoverLine, 8)
			if err != nil {
				return nil, "", false
			}
			byLine := map[int][]string{}
			for _, d := range srv.View()[ws.URI("anno.lua")] {
				byLine[d.Range.Start.Line] = append(byLine[d.Range.Start.Line], fmt.Sprintf("t%d:%s", d.Type, d.Message))
			}
			h := ""
			if hv != nil {
				h = hv.Contents.Value
			}
			// another file of the workspace is created and saved: the project-wide annotation check runs again; the
			// warnings of this file, which nobody touched, stay what they are
			ws.Write("other16.lua", "local unrelated = 1\nprint(unrelated)\n")
			srv.Notify("workspace/didChangeWatchedFiles", map[string]interface{}{"changes": []interface{}{map[string]interface{}{"uri": ws.URI("other16.lua"), "type": 1}}})
			srv.DidOpen(ws.URI("other16.lua"), "local unrelated = 1\nprint(unrelated)\n")
			ws.Write("other16.lua", "local unrelated = 2\nprint(unrelated)\n")
			srv.DidSave(ws.URI("other16.lua"), "local unrelated = 2\nprint(unrelated)\n")
			if srv.Fence() == nil {
				after := map[int][]string{}
				for _, d := range srv.View()[ws.URI("anno.lua")] {
					after[d.Range.Start.Line] = append(after[d.Range.Start.Line], fmt.Sprintf("t%d:%s", d.Type, d.Message))
				}
				c.Count("recheck_comparisons", 1)
				for ln, ms := range byLine {
					for _, m := range setDiffS(ms, after[ln]) {
						if strings.HasPrefix(m, "t18:") {
							c.Report("annotation-warning-lost-after-recheck", fmt.Sprintf("after another file was saved, line %d of the untouched file lost %q", ln, m), map[string]interface{}{"file": text})
							break
						}
					}
				}
			}
			return byLine, h, true
		}
		bd, bh, ok := observe(base, fmt.Sprintf("c16e%d", i))
		if !ok {
			c.Inconclusive("server failed on an annotation file (C01's business)")
			return
		}
		c.Eval(1)
		for _, a := range annos {
			c.Count("end_to_end_conformant_lines", 1)
			for _, m := range bd[a.line] {
				if k := strings.Index(m, "not define annotate type: "); k >= 0 {
					// generated lines name types that nothing declares; the documented default types and the classes and the alias this
					// file declares are declared
					if nm := strings.TrimSpace(m[k+len("not define annotate type: "):]); c16DeclaredNames[nm] {
						c.Report("end-to-end-declared-type-reported-undeclared|"+map[bool]string{true: "default-type", false: "type-of-this-file"}[nm != "People" && nm != "Man" && nm != "Handler"],
							fmt.Sprintf("conformant line %q gets %s", a.cs.Line, m), map[string]interface{}{"file": base})
					}
					continue
				}
				if strings.HasPrefix(m, "t18:") {
					c.Report(fmt.Sprintf("end-to-end-conformant-line-warned|%s|%s", a.cs.Kind, annoShape(a.cs)), fmt.Sprintf("conformant line %q gets %s", a.cs.Line, m), map[string]interface{}{"file": base})
				}
			}
		}
		// one corruption
		a := annos[rr.Intn(len(annos))]
		bad, kind := c16Corrupt(rr, a.cs.Line)
		if bad == a.cs.Line {
			return
		}
		ml := append([]string{}, lines...)
		ml[a.line] = bad
		md, mh, ok := observe(strings.Join(ml, "\n")+"\n", fmt.Sprintf("c16m%d", i))
		if !ok {
			c.Report("server-down-on-malformed-annotation|"+kind, fmt.Sprintf("the server did not survive the malformed line %q", bad), map[string]interface{}{"file": strings.Join(ml, "\n")})
			return
		}
		c.Count("end_to_end_corruptions", 1)
		c.Distinct(bad)
		for ln, ms := range md {
			for _, m := range setDiffS(ms, bd[ln]) {
				if ln == a.line && strings.HasPrefix(m, "t18:") {
					continue
				}
				// losing the annotation may legitimately change diagnostics of the statement it annotated (next two lines)
				if ln > a.line && ln <= a.line+2 {
					continue
				}
				c.Report(fmt.Sprintf("malformed-line-disturbs-other-lines|%s|%s", kind, strings.SplitN(m, ":", 2)[0]), fmt.Sprintf("corrupting line %d to %q adds %q on line %d", a.line, bad, m, ln), map[string]interface{}{"file": strings.Join(ml, "\n")})
			}
		}
		for ln, ms := range bd {
			if ln == a.line || (ln > a.line && ln <= a.line+2) {
				continue
			}
			for _, m := range setDiffS(ms, md[ln]) {
				c.Report(fmt.Sprintf("malformed-line-removes-other-diagnostics|%s|%s", kind, strings.SplitN(m, ":", 2)[0]), fmt.Sprintf("corrupting line %d to %q removes %q from line %d", a.line, bad, m, ln), map[string]interface{}{"file": strings.Join(ml, "\n")})
			}
		}
		if mh != bh {
			c.Report("malformed-line-changes-neighbour-hover|"+kind, fmt.Sprintf("corrupting %q changes the hover of a neighbouring annotated variable from %q to %q", a.cs.Line, truncate(bh, 120), truncate(mh, 120)), map[string]interface{}{"file": strings.Join(ml, "\n")})
		}
	})
}

// c16BlockNeighbours: one malformed line in the middle of a multi-line annotation block (fields of a class, parameters
// of a function). What the other lines of the same block declare must be understood exactly as before.
func c16BlockNeighbours(c *Ctx, r *Rng) {
	n := c.N(200, 10000)
	parallel(n, 12, func(i int) {
		rr := r.Fork(uint64(i))
		types := []string{"number", "string", "People", "People[]", "table<string, People>", "fun(a: number): string", "number | string", "boolean"}
		nf := rr.Range(3, 5)
		lines := []string{"---@class People", "---@field pname string", "local People = {}", ""}
		// half of the files declare a further class in the same comment block, directly above Blk
		adj := rr.Fork(0x61646a).Bool()
		if adj {
			lines = append(lines, "---@class AdjFirst", "---@field adjf number")
		}
		lines = append(lines, "---@class Blk")
		fieldLine := map[int]int{}
		for k := 0; k < nf; k++ {
			fieldLine[k] = len(lines)
			lines = append(lines, fmt.Sprintf("---@field f%d %s", k, rr.Pick(types)))
		}
		// (a plain comment line closes each block; the placement variant below turns it into a long-bracket comment)
		lines = append(lines, "-- c16-sep", "local Blk = {}", "", "---@type Blk", "local bv = {}")
		type probe struct {
			line, col int
			what      string
			idx       int
		}
		var probes []probe
		if adj {
			lines = append(lines, "---@type AdjFirst", "local adjv = {}")
			probes = append(probes, probe{len(lines), 12, "field adjf of the class declared first in the block", -1})
			lines = append(lines, "print(adjv.adjf)")
		}
		for k := 0; k < nf; k++ {
			probes = append(probes, probe{len(lines), 10, fmt.Sprintf("field f%d", k), k})
			lines = append(lines, fmt.Sprintf("print(bv.f%d)", k))
		}
		lines = append(lines, "")
		paramLine := map[int]int{}
		for k := 0; k < nf; k++ {
			paramLine[k] = len(lines)
			lines = append(lines, fmt.Sprintf("---@param q%d %s", k, rr.Pick(types)))
		}
		var ps []string
		for k := 0; k < nf; k++ {
			ps = append(ps, fmt.Sprintf("q%d", k))
		}
		lines = append(lines, "-- c16-sep", fmt.Sprintf("local function pf(%s)", strings.Join(ps, ", ")))
		for k := 0; k < nf; k++ {
			probes = append(probes, probe{len(lines), 8, fmt.Sprintf("param q%d", k), nf + k})
			lines = append(lines, fmt.Sprintf("  print(q%d)", k))
		}
		lines = append(lines, "end", "print(pf)")
		observe := func(text, tag string) ([]string, map[int][]string, bool) {
			ws := c.NewWorkspace(map[string]string{"blk.lua": text})
			defer ws.Remove()
			srv, err := StartServer(ServerOpts{Root: ws.Root, Tag: tag})
			if err != nil {
				if srv != nil {
					srv.Close()
				}
				return nil, nil, false
			}
			defer srv.Close()
			srv.DidOpen(ws.URI("blk.lua"), text)
			var out []string
			for _, p := range probes {
				hv, _, err := srv.Hover(ws.URI("blk.lua"), p.line, p.col)
				if err != nil {
					return nil, nil, false
				}
				h := ""
				if hv != nil {
					h = hv.Contents.Value
				}
				out = append(out, h)
			}
			byLine := map[int][]string{}
			for _, d := range srv.View()[ws.URI("blk.lua")] {
				if d.Type == 18 {
					byLine[d.Range.Start.Line] = append(byLine[d.Range.Start.Line], d.Message)
				}
			}
			return out, byLine, true
		}
		base := strings.Join(lines, "\n") + "\n"
		bh, b18, ok := observe(base, fmt.Sprintf("c16b%d", i))
		if !ok {
			c.Inconclusive("server failed on an annotation file (C01's business)")
			return
		}
		c.Eval(1)
		// every annotation line of this file conforms to the documented syntax and every type it names is declared
		for l, ms := range b18 {
			c.Report("conformant-block-warned", fmt.Sprintf("a file of conformant annotation blocks gets %q on line %d (%q)", ms[0], l, lines[l]), map[string]interface{}{"file": base})
		}
		if adj {
			c.Count("blocks_with_two_classes", 1)
			for pi, p := range probes {
				if p.idx == -1 && !strings.Contains(bh[pi], "number") {
					c.Report("first-class-of-a-block-not-understood", fmt.Sprintf("%s is understood as %q", p.what, truncate(bh[pi], 100)), map[string]interface{}{"file": base})
				}
			}
		}
		// placement: what a block of conformant lines declares does not depend on the code line directly above it (none,
		// a statement, a statement with a trailing comment)
		{
			rl := rr.Fork(0x6c61796f7574)
			fillers := []string{"local pad%d = %d", "local pad%d = %d -- trailing note", "local pad%d = %d --- trailing note", "print(%d, %d) -- trailing note", "local pad%d = %d --[[ block note ]]"}
			ll := append([]string{}, lines...)
			var used []string
			for li := 1; li < len(ll); li++ {
				// (only below the class block: a class is registered whatever follows its block, whereas the parameter
				// lines of a function have to stand directly above it - a long comment in between detaches them, by design)
				if ll[li] == "-- c16-sep" && strings.HasPrefix(ll[li+1], "local Blk") && rl.Bool() {
					// a long-bracket comment between the block and the statement it annotates
					ll[li] = rl.Pick([]string{"--[[ sep ]]", "--[==[ sep ]==]", "--[[sep]] -- and more"})
					used = append(used, ll[li])
				}
				if ll[li-1] == "" && strings.HasPrefix(ll[li], "---@") {
					f := rl.Pick(fillers)
					ll[li-1] = fmt.Sprintf(f, li, li)
					used = append(used, strings.SplitN(f, "%d", 3)[2])
				}
			}
			lh, l18, ok := observe(strings.Join(ll, "\n")+"\n", fmt.Sprintf("c16l%d", i))
			if !ok {
				c.Inconclusive("server failed on an annotation file (C01's business)")
				return
			}
			c.Count("block_placements", 1)
			for l, ms := range l18 {
				c.Report("conformant-block-warned-after-code-line", fmt.Sprintf("placing code lines %q directly above the annotation blocks puts %q on line %d", used, ms[0], l), map[string]interface{}{"file": strings.Join(ll, "\n")})
			}
			for pi, p := range probes {
				c.Count("block_placement_hovers_compared", 1)
				if lh[pi] != bh[pi] {
					c.Report("block-understood-differently-after-code-line", fmt.Sprintf("with code lines %q directly above the annotation blocks, %s is understood as %q instead of %q", used, p.what, truncate(lh[pi], 100), truncate(bh[pi], 100)),
						map[string]interface{}{"file": strings.Join(ll, "\n")})
					break
				}
			}
		}
		// corrupt one line that is neither the first nor the last of its block
		victim := rr.Range(1, nf-2)
		inParams := rr.Bool()
		ln := fieldLine[victim]
		vidx := victim
		if inParams {
			ln = paramLine[victim]
			vidx = nf + victim
		}
		bad, kind := c16Corrupt(rr, lines[ln])
		if bad == lines[ln] {
			return
		}
		ml := append([]string{}, lines...)
		ml[ln] = bad
		mh, m18, ok := observe(strings.Join(ml, "\n")+"\n", fmt.Sprintf("c16c%d", i))
		if !ok {
			c.Report("server-down-on-malformed-annotation|"+kind, fmt.Sprintf("the server did not survive the malformed line %q", bad), map[string]interface{}{"file": strings.Join(ml, "\n")})
			return
		}
		c.Count("block_corruptions", 1)
		c.Distinct("blk|" + bad)
		for l, ms := range m18 {
			if l != ln {
				c.Report("malformed-line-disturbs-other-lines|"+kind+"|t18", fmt.Sprintf("corrupting line %d to %q puts %q on line %d", ln, bad, ms[0], l), map[string]interface{}{"file": strings.Join(ml, "\n")})
			}
		}
		for pi, p := range probes {
			if p.idx == vidx {
				continue // what the malformed line itself declared may be lost
			}
			c.Count("block_neighbour_hovers_compared", 1)
			if mh[pi] != bh[pi] {
				where := "before"
				if (p.idx < nf) == (vidx < nf) && p.idx > vidx {
					where = "after"
				} else if (p.idx < nf) != (vidx < nf) {
					where = "in-other-block"
				}
				blk := "field-block"
				if inParams {
					blk = "param-block"
				}
				c.Report(fmt.Sprintf("malformed-line-changes-block-neighbour|%s|%s|%s", blk, where, kind),
					fmt.Sprintf("corrupting line %d to %q changes what %s (declared %s the bad line) is understood as: %q -> %q", ln, bad, p.what, where, truncate(bh[pi], 100), truncate(mh[pi], 100)),
					map[string]interface{}{"file": strings.Join(ml, "\n"), "line": ln})
			}
		}
	})
}

// c16ReturnBlocks: comment blocks whose ---@return lines declare one to three values each (the documented form
// `---@return TYPE, TYPE @comment` followed by further ---@return lines): the n-th return value of the function is the n-th
// declared value over all lines, with the type written for it and the trailing comment of the line that declares it - never the
// comment of a neighbouring line.
func c16ReturnBlocks(c *Ctx, r *Rng) {
	n := c.N(150, 5000)
	lineRe := regexp.MustCompile(`->(\d+)\. ([^\n]*)`)
	parallel(n, 12, func(i int) {
		rr := r.Fork(uint64(i))
		types := []string{"number", "string", "boolean", "People", "table", "any"}
		lines := []string{"---@class People", "---@field pname string", "local People = {}", ""}
		type fn struct {
			name         string
			line, col    int
			types, notes []string // per return value: its type, and the comment token of its line ("" = the line has no comment)
		}
		var fns []fn
		tok := 0
		for k := rr.Range(2, 4); k > 0; k-- {
			f := fn{name: fmt.Sprintf("rfun%d", k)}
			np := rr.Intn(3)
			var ps []string
			for p := 0; p < np; p++ {
				ps = append(ps, fmt.Sprintf("p%d", p))
				lines = append(lines, fmt.Sprintf("---@param p%d %s @paramnote%d", p, rr.Pick(types), p))
			}
			for l := rr.Range(1, 3); l > 0; l-- {
				var ts []string
				for v := rr.Range(1, 3); v > 0; v-- {
					ts = append(ts, rr.Pick(types))
				}
				note := ""
				if rr.Chance(2, 3) {
					tok++
					note = fmt.Sprintf("retnote%dq", tok)
				}
				ln := "---@return " + strings.Join(ts, rr.Pick([]string{", ", ","}))
				if note != "" {
					ln += " @" + note
				}
				lines = append(lines, ln)
				for _, t := range ts {
					f.types = append(f.types, t)
					f.notes = append(f.notes, note)
				}
			}
			head := rr.Pick([]string{"function ", "local function "})
			f.line, f.col = len(lines), len(head)+1
			lines = append(lines, head+f.name+"("+strings.Join(ps, ", ")+")", "end", "print("+f.name+")", "")
			fns = append(fns, f)
		}
		text := strings.Join(lines, "\n") + "\n"
		ws := c.NewWorkspace(map[string]string{"ret.lua": text})
		defer ws.Remove()
		srv, err := StartServer(ServerOpts{Root: ws.Root, Tag: fmt.Sprintf("c16r%d", i)})
		if err != nil {
			if srv != nil {
				srv.Close()
			}
			c.Inconclusive("server failed on an annotation file (C01's business)")
			return
		}
		defer srv.Close()
		srv.DidOpen(ws.URI("ret.lua"), text)
		for u, ds := range srv.View() {
			for _, d := range ds {
				if d.Type == 18 && ws.Rel(u) == "ret.lua" {
					c.Report("conformant-line-warned|return-block", fmt.Sprintf("annotation warning on a documented return block: line %d %s", d.Range.Start.Line, d.Message), map[string]interface{}{"file": text})
				}
			}
		}
		for _, f := range fns {
			hv, _, err := srv.Hover(ws.URI("ret.lua"), f.line, f.col)
			if err != nil {
				c.Inconclusive("server failed on an annotation file (C01's business)")
				return
			}
			c.Count("return_block_hovers", 1)
			h := ""
			if hv != nil {
				h = hv.Contents.Value
			}
			if k := strings.Index(h, "\n---\n"); k >= 0 {
				h = h[:k] // the signature part; the annotation lines are repeated verbatim below the rule
			}
			got := map[int]string{}
			for _, m := range lineRe.FindAllStringSubmatch(h, -1) {
				var idx int
				fmt.Sscan(m[1], &idx)
				got[idx] = m[2]
			}
			c.Count("return_values_compared", int64(len(f.types)))
			c.Distinct(fmt.Sprint(f.types, f.notes))
			for vi := range f.types {
				g, ok := got[vi+1]
				bad := ""
				switch {
				case !ok:
					bad = "value-missing"
				case !strings.HasPrefix(g, f.types[vi]):
					bad = "type"
				case f.notes[vi] != "" && !strings.Contains(g, f.notes[vi]):
					bad = "comment-of-its-line-missing"
				default:
					for _, m := range regexp.MustCompile(`retnote\d+q|paramnote\d+`).FindAllString(g, -1) {
						if m != f.notes[vi] {
							bad = "comment-of-another-line"
						}
					}
				}
				if bad != "" {
					c.Report("return-block-structure|"+bad, fmt.Sprintf("return value %d of %s (declared %s, comment %q) is shown as %q", vi+1, f.name, f.types[vi], f.notes[vi], g),
						map[string]interface{}{"file": text, "function": f.name, "hover": h})
					break
				}
			}
			if len(got) > len(f.types) {
				c.Report("return-block-structure|surplus-values", fmt.Sprintf("%s declares %d return values, the hover shows %d", f.name, len(f.types), len(got)), map[string]interface{}{"file": text, "hover": h})
			}
		}
	})
}
