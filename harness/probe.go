package main

// Debug aid: vcheck probe <method> <file.lua> <line> <char> [extra files...]
// Copies the files into a scratch workspace, starts a server and prints the raw answer.

import (
	"strings"
	"encoding/json"
	"fmt"
	"os"
	"path/filepath"
	"strconv"
)

func init() {
	special["probe"] = func(args []string) int {
		if len(args) < 4 {
			fmt.Println("usage: probe <method|diags> <file.lua> <line> <char> [more files]")
			return 2
		}
		c := NewCtx("probe", "quick")
		defer os.RemoveAll(c.Tmp)
		files := map[string]string{}
		for _, f := range append([]string{args[1]}, args[4:]...) {
			b, err := os.ReadFile(f)
			if err != nil {
				fmt.Println(err)
				return 2
			}
			files[filepath.Base(f)] = string(b)
		}
		ws := c.NewWorkspace(files)
		srv, err := StartServer(ServerOpts{Root: ws.Root})
		if err != nil {
			fmt.Println("start:", err, srv.StderrHead(2000))
			return 1
		}
		defer srv.Close()
		rel := filepath.Base(args[1])
		srv.DidOpen(ws.URI(rel), files[rel])
		srv.Fence()
		line, _ := strconv.Atoi(args[2])
		ch, _ := strconv.Atoi(args[3])
		if args[0] == "diags" {
			for u, ds := range srv.View() {
				for _, d := range ds {
					fmt.Println(ws.Rel(u), d.Range, d.Message)
				}
			}
			return 0
		}
		if args[0] == "workspace/symbol" {
			for _, q := range strings.Split(args[2], ",") {
				sy, _, _ := srv.WorkspaceSymbol(q)
				for _, s := range sy {
					fmt.Printf("%s -> %s kind=%d container=%s %s@%s\n", q, s.Name, s.Kind, s.ContainerName, ws.Rel(s.Location.URI), s.Location.Range)
				}
				if len(sy) == 0 {
					fmt.Printf("%s -> (nothing)\n", q)
				}
			}
			return 0
		}
		p := tdPos(ws.URI(rel), line, ch)
		p["context"] = map[string]interface{}{"includeDeclaration": true, "triggerKind": 1}
		p["newName"] = "renamed"
		r, err := srv.Request(args[0], p)
		if err != nil {
			fmt.Println("error:", err, srv.StderrHead(3000))
			return 1
		}
		var v interface{}
		if r.Err != nil {
			fmt.Println("rpc error:", r.Err.Message)
			return 0
		}
		json.Unmarshal(r.Result, &v)
		b, _ := json.MarshalIndent(v, "", " ")
		fmt.Println(string(b))
		return 0
	}
}

func init() {
	// vcheck probedir <dir> : start a server on a copy of dir (all files, incl. luahelper.json) and print diagnostics or the crash
	special["probedir"] = func(args []string) int {
		c := NewCtx("probe", "quick")
		defer os.RemoveAll(c.Tmp)
		files := map[string]string{}
		filepath.Walk(args[0], func(p string, info os.FileInfo, err error) error {
			if err == nil && !info.IsDir() {
				b, _ := os.ReadFile(p)
				rel, _ := filepath.Rel(args[0], p)
				files[rel] = string(b)
			}
			return nil
		})
		ws := c.NewWorkspace(files)
		srv, err := StartServer(ServerOpts{Root: ws.Root})
		if err != nil {
			fmt.Println("start:", err)
			if srv != nil {
				fmt.Println(srv.StderrHead(3000))
			}
			return 1
		}
		defer srv.Close()
		for u, ds := range srv.View() {
			for _, d := range ds {
				fmt.Println(ws.Rel(u), d.Range, d.Message)
			}
		}
		// further args: method rel line char (repeated)
		opened := map[string]bool{}
		for i := 1; i+3 < len(args); i += 4 {
			rel := args[i+1]
			line, _ := strconv.Atoi(args[i+2])
			ch, _ := strconv.Atoi(args[i+3])
			if args[i] == "didChangeFull" {
				// args: didChangeFull <rel> <version> <unused>; new text from env PROBE_TEXT_FILE
				b, _ := os.ReadFile(os.Getenv("PROBE_TEXT_FILE"))
				srv.DidOpen(ws.URI(rel), files[rel])
				srv.DidChangeFull(ws.URI(rel), line+2, string(b))
				files[rel] = string(b)
				opened[rel] = true
				continue
			}
			if !opened[rel] {
				srv.DidOpen(ws.URI(rel), files[rel])
				opened[rel] = true
			}
			p := tdPos(ws.URI(rel), line, ch)
			p["context"] = map[string]interface{}{"includeDeclaration": true, "triggerKind": 1}
			r, err := srv.Request(args[i], p)
			if err != nil {
				fmt.Println("error:", err)
				return 1
			}
			out := strings.ReplaceAll(string(r.Result), ws.Root, "$ROOT")
			fmt.Printf("%s %s %d:%d -> %s\n", args[i], rel, line, ch, truncate(out, 60000))
		}
		return 0
	}
}

func init() {
	// vcheck visible <file> <line> <character>: the declarations R-bind considers visible at a position
	special["visible"] = func(args []string) int {
		if len(args) < 3 {
			fmt.Println("usage: visible <file> <line> <character>")
			return 2
		}
		b, err := os.ReadFile(args[0])
		if err != nil {
			fmt.Println(err)
			return 2
		}
		var line, ch int
		fmt.Sscan(args[1], &line)
		fmt.Sscan(args[2], &ch)
		off, ok := (&RText{B: b}).Offset(Position{Line: line, Character: ch})
		if !ok {
			fmt.Println("position outside the text")
			return 2
		}
		pr := RParse(b)
		if !pr.Valid() {
			fmt.Println("not valid:", pr.Err)
			return 1
		}
		br := RBind(pr)
		for _, d := range br.Decls {
			if d.Tok == nil {
				continue
			}
			vis := d.VisFrom <= off && off < d.VisTo
			fmt.Printf("%-12s %-9s decl@%d vis[%d,%d) visible=%v\n", d.Name, d.Kind.String(), d.Tok.Off, d.VisFrom, d.VisTo, vis)
		}
		fmt.Println("cursor offset", off)
		return 0
	}
}
