#!/bin/bash
# /verif/run.sh <ID|setup|selftest|replay ...> [quick|thorough]
# Rebuilds the server (with hooks) and the harness from $VERIF_REPO (default /repo) and runs one check.
set -u
export GOFLAGS=-mod=mod GOPROXY=off GOSUMDB=off GOTOOLCHAIN=local CGO_ENABLED=1
HERE="$(cd "$(dirname "$0")" && pwd)"
REPO="${VERIF_REPO:-/repo}"
BUILD="${VERIF_BUILD:-$HERE/.build}"
mkdir -p "$BUILD"
ID="${1:-}"
TIER="${2:-${VERIF_TIER:-quick}}"
[ -z "$ID" ] && { echo "usage: run.sh <ID> [quick|thorough]"; exit 2; }

# one builder at a time per build dir (checks may be started in parallel)
exec 9>"$BUILD/.lock"
flock 9

build_fail() { echo "BUILD-FAILED: $1"; exit 2; }

# harness module file with the replace pointing at the tree under test
cat > "$BUILD/harness.mod" <<MOD
module verif

go 1.21

require (
	github.com/anishathalye/porcupine v1.3.0
	luahelper-lsp v0.0.0
)

replace luahelper-lsp => $REPO/luahelper-lsp
MOD
cat "$REPO/luahelper-lsp/go.sum" "$HERE/harness/go.sum.extra" 2>/dev/null | sort -u > "$BUILD/harness.sum"

( cd "$REPO/luahelper-lsp" && go build -tags verif -o "$BUILD/lualsp" . ) || build_fail lualsp
( cd "$HERE/harness" && go build -tags verif -modfile="$BUILD/harness.mod" -o "$BUILD/vcheck" . ) || build_fail vcheck
NEED_RACE=0
case "$ID" in C10) NEED_RACE=1;; esac
[ "$TIER" = thorough ] && case "$ID" in C01|C08) NEED_RACE=1;; esac
if [ "$NEED_RACE" = 1 ]; then
  ( cd "$REPO/luahelper-lsp" && go build -race -tags verif -o "$BUILD/lualsp-race" . ) || build_fail lualsp-race
fi
flock -u 9

[ "$ID" = setup ] && { echo "setup ok"; exit 0; }
export VERIF_HOME="$HERE" VERIF_BUILD_DIR="$BUILD" VERIF_REPO_DIR="$REPO"
shift
exec "$BUILD/vcheck" "$ID" "$TIER" "${@:2}"
