local a = 1
local s = [=