local x,x={ x=x }
