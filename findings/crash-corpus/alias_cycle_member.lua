---@alias A B
---@alias B A
---@type A
local v = {}
print(v.x)
