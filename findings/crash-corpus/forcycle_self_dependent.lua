for c, tbl in ipairs(G1) do
  G1 = tbl
end
