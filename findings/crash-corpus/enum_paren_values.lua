---@enum start
A = (x)
B = (x)
---@enum end
