---@class CycA : CycB
---@field fa number
---@class CycB : CycA
---@field fb number
---@type CycA
local v = { fa = 1, nofield = 2 }
print(v.fa, v.zz)
v.other = 3
