#!/bin/bash
# tools/seedrebase.sh <worktree>: move a scratch worktree that carries an uncommitted seeded change onto /repo's HEAD.
set -eu
WT="$1"; H=$(git -C /repo rev-parse HEAD)
cd "$WT"
git diff -- luahelper-lsp > "$WT/.seed.diff"
git checkout -q -- .
git checkout -q --detach "$H"
git apply "$WT/.seed.diff"
echo "$WT now at $(git log --format=%h -1) + $(git diff --stat | tail -1)"
