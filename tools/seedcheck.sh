#!/bin/bash
# tools/seedcheck.sh <seeded-name> [tier] [check-ids...]
# Runs checks against a stored seeded change in a throw-away worktree of /repo HEAD (removed afterwards); /repo's own
# working tree is not touched, so this can run next to anything else.
set -u
HERE="$(cd "$(dirname "$0")/.." && pwd)"
N="$1"; TIER="${2:-quick}"; shift; shift 2>/dev/null
ID=$(python3 -c "import json;print(json.load(open('$HERE/seeded/$N/meta.json'))['property'])")
WT=/tmp/mut/$N
rm -rf "$WT"; git -C /repo worktree prune; mkdir -p /tmp/mut
git -C /repo worktree add -q --detach "$WT" HEAD || exit 2
trap 'git -C /repo worktree remove --force "$WT" >/dev/null 2>&1' EXIT
git -C "$WT" apply "$HERE/seeded/$N/patch.diff" || { echo "$N: patch does not apply"; exit 2; }
"$HERE/tools/seedtest.sh" "$WT" "$ID" "$TIER" "$@"
