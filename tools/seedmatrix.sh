#!/bin/bash
# tools/seedmatrix.sh [seeded-dir-names...]
# For every confirmed seeded change: apply it to /repo, run the quick check of its property, undo it
# (git -C /repo checkout -- .), and record the outcome in seeded/<name>/verification.json.
# Build output and evidence of these runs go to /tmp/seedmatrix (removed at the end); /verif/evidence is not touched.
set -u
HERE="$(cd "$(dirname "$0")/.." && pwd)"
cd "$HERE"
[ -n "$(git -C /repo status --porcelain)" ] && { echo "/repo is not clean"; exit 2; }
names="${*:-$(ls seeded)}"
mkdir -p /tmp/seedmatrix
for n in $names; do
  d=seeded/$n
  [ -f $d/patch.diff ] || continue
  id=$(python3 -c "import json;print(json.load(open('$d/meta.json'))['property'])")
  if ! git -C /repo apply --check "$HERE/$d/patch.diff" 2>/dev/null; then echo "$n: patch does not apply"; continue; fi
  git -C /repo apply "$HERE/$d/patch.diff"
  s=$(date +%s)
  VERIF_BUILD=/tmp/seedmatrix/build VERIF_OUT=/tmp/seedmatrix/$n ./run.sh $id quick > /tmp/seedmatrix/$n.log 2>&1
  rc=$?
  git -C /repo checkout -- .
  secs=$(( $(date +%s)-s ))
  python3 - "$d" "$id" "$rc" "$secs" "/tmp/seedmatrix/$n.log" <<'PY'
import json,sys,os,re
d,id,rc,secs,log=sys.argv[1:]
t=open(log,errors='replace').read()
sigs=sorted(set(re.findall(r'^  signature: (.*)$',t,flags=re.M)))[:4]
p=os.path.join(d,'verification.json')
v=json.load(open(p)) if os.path.exists(p) else {}
v.update({'confirmed':'tools/seedverify.sh: applies to /repo HEAD, builds, 75 PASS / 0 FAIL with the change, demonstration fails with it and passes without it',
  'ran':'git -C /repo apply patch.diff; ./run.sh %s quick; git -C /repo checkout -- .'%id,
  'exit_code':int(rc),'seconds':int(secs),'signatures':sigs,
  'now':('caught (exit 1, VIOLATION): '+'; '.join(s[:90] for s in sigs[:2])) if rc=='1' and 'VIOLATION property='+id in t else 'MISSED (exit %s)'%rc})
json.dump(v,open(p,'w'),indent=1)
print(os.path.basename(d),id,'rc='+rc,secs+'s',v['now'][:120])
PY
done
rm -rf /tmp/seedmatrix
[ -n "$(git -C /repo status --porcelain)" ] && echo "WARNING: /repo not clean after the run"
