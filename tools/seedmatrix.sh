#!/bin/bash
# tools/seedmatrix.sh [seeded-dir-names...]
# For every confirmed seeded change: apply it to /repo, run the quick check of its property, undo it
# (git -C /repo checkout -- .), and record the outcome in seeded/<name>/verification.json.
# Build output and evidence of these runs go to /tmp/seedmatrix (removed at the end); /verif/evidence is not touched.
set -u
HERE="$(cd "$(dirname "$0")/.." && pwd)"
cd "$HERE"
[ -n "$(git -C /repo status --porcelain)" ] && { echo "/repo is not clean"; exit 2; }
names="${*:-$(ls seeded)}"
mkdir -p /tmp/seedmatrix
if [ -n "${SEEDMATRIX_JOBS:-}" ]; then
  # parallel mode: every change gets a throw-away worktree of /repo HEAD (removed after its run) instead of being applied to
  # /repo itself, $SEEDMATRIX_JOBS at a time; the timing-sensitive C10 rows run one at a time afterwards
  row() {
    n="$1"; d="$HERE/seeded/$n"
    id=$(python3 -c "import json;print(json.load(open('$d/meta.json'))['property'])")
    wt=/tmp/seedmatrix/wt-$n
    git -C /repo worktree add -q --detach "$wt" HEAD 2>/dev/null || { echo "$n: no worktree"; return; }
    if git -C "$wt" apply "$d/patch.diff" 2>/dev/null; then
      s=$(date +%s)
      VERIF_REPO="$wt" VERIF_BUILD="$wt/.vbuild" VERIF_OUT="$wt/.vout" "$HERE/run.sh" $id quick > /tmp/seedmatrix/$n.log 2>&1
      rc=$?
      python3 "$HERE/tools/seedmatrix_row.py" "$d" "$id" "$rc" "$(( $(date +%s)-s ))" "/tmp/seedmatrix/$n.log" "throw-away worktree of /repo HEAD + patch.diff; VERIF_REPO=<worktree> ./run.sh $id quick"
    else
      echo "$n: patch does not apply"
    fi
    git -C /repo worktree remove --force "$wt" >/dev/null 2>&1
  }
  export -f row; export HERE
  par=""; ser=""
  for n in $names; do
    [ -f seeded/$n/patch.diff ] || continue
    case "$n" in C10*) ser="$ser $n";; *) par="$par $n";; esac
  done
  echo $par | tr ' ' '\n' | xargs -P "$SEEDMATRIX_JOBS" -I{} bash -c 'row {}'
  for n in $ser; do row $n; done
  git -C /repo worktree prune
  rm -rf /tmp/seedmatrix
  exit 0
fi
for n in $names; do
  d=seeded/$n
  [ -f $d/patch.diff ] || continue
  id=$(python3 -c "import json;print(json.load(open('$d/meta.json'))['property'])")
  if ! git -C /repo apply --check "$HERE/$d/patch.diff" 2>/dev/null; then echo "$n: patch does not apply"; continue; fi
  git -C /repo apply "$HERE/$d/patch.diff"
  s=$(date +%s)
  VERIF_BUILD=/tmp/seedmatrix/build VERIF_OUT=/tmp/seedmatrix/$n ./run.sh $id quick > /tmp/seedmatrix/$n.log 2>&1
  rc=$?
  git -C /repo checkout -- .
  secs=$(( $(date +%s)-s ))
  python3 "$HERE/tools/seedmatrix_row.py" "$d" "$id" "$rc" "$secs" "/tmp/seedmatrix/$n.log"
done
rm -rf /tmp/seedmatrix
[ -n "$(git -C /repo status --porcelain)" ] && echo "WARNING: /repo not clean after the run"
