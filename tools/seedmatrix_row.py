import json,sys,os,re
d,id,rc,secs,log=sys.argv[1:6]
ran=sys.argv[6] if len(sys.argv)>6 else 'git -C /repo apply patch.diff; ./run.sh %s quick; git -C /repo checkout -- .'%id
t=open(log,errors='replace').read()
sigs=sorted(set(re.findall(r'^  signature: (.*)$',t,flags=re.M)))[:4]
p=os.path.join(d,'verification.json')
v=json.load(open(p)) if os.path.exists(p) else {}
v.update({'confirmed':'tools/seedverify.sh: applies to /repo HEAD, builds, 75 PASS / 0 FAIL with the change, demonstration fails with it and passes without it',
  'ran':ran,
  'exit_code':int(rc),'seconds':int(secs),'signatures':sigs,
  'now':('caught (exit 1, VIOLATION): '+'; '.join(s[:90] for s in sigs[:2])) if rc=='1' and 'VIOLATION property='+id in t else 'MISSED (exit %s)'%rc})
json.dump(v,open(p,'w'),indent=1)
print(os.path.basename(d),id,'rc='+rc,secs+'s',v['now'][:120])
