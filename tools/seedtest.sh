#!/bin/bash
# tools/seedtest.sh <worktree> <ID> [tier] [check-ids...]
# Runs /verif's checks against a scratch copy of LuaHelper that carries a seeded change.
# Evidence/replays of these runs go to <worktree>/.vout, the build to <worktree>/.vbuild — nothing in /verif is
# touched. Prints one line per check: "<check> rc=<n> <first VIOLATION line>".
set -u
WT="$1"; ID="$2"; TIER="${3:-quick}"; shift 3 2>/dev/null || shift $#
CHECKS="${*:-$ID}"
HERE="$(cd "$(dirname "$0")/.." && pwd)"
mkdir -p "$WT/.vout" "$WT/.vbuild"
for c in $CHECKS; do
  s=$(date +%s)
  VERIF_REPO="$WT" VERIF_BUILD="$WT/.vbuild" VERIF_OUT="$WT/.vout" "$HERE/run.sh" "$c" "$TIER" > "$WT/.vout/$c.$TIER.log" 2>&1
  rc=$?
  echo "$c rc=$rc secs=$(( $(date +%s)-s )) $(grep -m1 '^VIOLATION' "$WT/.vout/$c.$TIER.log")"
  grep -E 'signature|^  what' "$WT/.vout/$c.$TIER.log" | sort | uniq -c | sort -rn | head -5 | cut -c1-300
done
