#!/usr/bin/env python3
"""Regenerates the generated tables of DESIGN.md from known_findings.txt and seeded/*/."""
import json, os, re, glob
H = os.path.dirname(os.path.dirname(os.path.abspath(__file__)))
fixed, findings = [], []
for l in open(os.path.join(H, 'known_findings.txt')):
    l = l.strip()
    m = re.match(r'fixed: property=(C\d+) (\S+) (.*)', l)
    if m:
        fixed.append(m.groups()); continue
    m = re.match(r'finding: property=(C\d+) id=(\S+) sig=(.*?) :: (.*?)(?: :: witness=.*)?$', l)
    if m:
        findings.append(m.groups())
def esc(t): return t.replace('|', '\\|')
out = ['**Repaired** (%d `fix:` commits; the existing suite passes after each; each is one `fixed:` line):\n' % len(fixed),
       '| property | commit | what failed |', '|---|---|---|']
for p, c, w in sorted(fixed):
    out.append('| %s | `%s` | %s |' % (p, c, esc(w)))
out += ['', '**Open findings** (genuine defects whose repair needs a redesign of position-based name resolution or of the publish bookkeeping; '
        'the check prints `KNOWN-FINDING` for each and reports anything outside these signatures as a violation):\n',
        '| id | property | what fails | signature |', '|---|---|---|---|']
for p, i, sig, w in findings:
    out.append('| %s | %s | %s | `%s` |' % (i, p, esc(w), esc(sig[:110])))
ft = '\n'.join(out)
rows = ['| seeded change | property | what it needs to manifest | own check, as first built | own check now (quick) | other checks that also fire |', '|---|---|---|---|---|---|']
for d in sorted(glob.glob(os.path.join(H, 'seeded', '*'))):
    try:
        meta = json.load(open(os.path.join(d, 'meta.json')))
    except Exception:
        continue
    ver = {}
    vp = os.path.join(d, 'verification.json')
    if os.path.exists(vp):
        ver = json.load(open(vp))
    need = meta.get('what_it_needs_to_manifest', '')
    if isinstance(need, list): need = '; '.join(need)
    need = re.sub(r'\s+', ' ', str(need))[:260]
    rows.append('| `seeded/%s` | %s | %s | %s | %s | %s |' % (os.path.basename(d), meta.get('property', '?'), esc(need),
                ver.get('first_built', '?'), esc(ver.get('now', '?') + ((' - masked by ' + ver['masked_by']) if ver.get('masked_by') and 'MISSED' in ver.get('now', 'MISSED') else '')), esc(', '.join(ver.get('others', [])) or '–')))
st = '\n'.join(rows)
p = os.path.join(H, 'DESIGN.md')
s = open(p).read()
s = re.sub(r'<!-- BEGIN FINDINGS TABLES -->.*?<!-- END FINDINGS TABLES -->', lambda m: '<!-- BEGIN FINDINGS TABLES -->\n' + ft + '\n<!-- END FINDINGS TABLES -->', s, flags=re.S)
s = re.sub(r'<!-- BEGIN SEEDED TABLE -->.*?<!-- END SEEDED TABLE -->', lambda m: '<!-- BEGIN SEEDED TABLE -->\n' + st + '\n<!-- END SEEDED TABLE -->', s, flags=re.S)
crow = ['| check | workload and oracle (from evidence) | last committed quick run |', '|---|---|---|']
for i in range(1, 21):
    cid = 'C%02d' % i
    try:
        e = json.load(open(os.path.join(H, 'evidence', cid + '.json')))
    except Exception:
        continue
    cov = e.get('coverage', {})
    crow.append('| %s | %s | %s evaluations, %s distinct non-trivial, verdict %s |' % (cid, esc(re.sub(r'\s+', ' ', cov.get('rule', ''))), cov.get('evaluations'), cov.get('distinct_nontrivial'), cov.get('verdict', e.get('verdict', '?'))))
ct = '\n'.join(crow)
s = re.sub(r'<!-- BEGIN CHECKS TABLE -->.*?<!-- END CHECKS TABLE -->', lambda m: '<!-- BEGIN CHECKS TABLE -->\n' + ct + '\n<!-- END CHECKS TABLE -->', s, flags=re.S)
open(p, 'w').write(s)
print('fixed', len(fixed), 'findings', len(findings), 'seeded', len(rows) - 2)
