#!/usr/bin/env python3
"""Generates /verif/MANIFEST.json from the table below (single source of truth for what is claimed)."""
import json, os, subprocess

HERE = os.path.dirname(os.path.dirname(os.path.abspath(__file__)))

# id -> (technique, level text, level note, design ref)
CLAIMED = {
 "C01": ("runtime monitoring of process liveness, per-request CPU-budget watchdog and the parser-recover hook (H2) under hostile content / annotation / configuration / message-sequence workloads",
         "Exploration by runtime monitoring: ~900 (quick) to ~27 000 (thorough) cases, each on its own server child process: hostile file contents (corpus + generated programs, byte/token mutation, truncation, deep nesting, long lines) with request sweeps over every addressable position of small files; cyclic/corrupted annotation graphs incl. config-file mode; malformed init options, luahelper.json and later configuration changes; conformant random message walks mixing every notification and request kind. A death only counts when it reproduces on a fresh process; 'never hangs' is decided as 'every request answered within 60 CPU-seconds with at most 4 requests in flight' (a wall-clock timeout is inconclusive, never a violation).",
         "Trusts the driver's crash classification (stderr) and /proc CPU accounting. Unbounded liveness cannot be decided by a finite run; the CPU bound replaces it. Only inputs the generators reach are covered.",
         "DESIGN.md 3/C01"),
 "C02": ("online monitor: hooked document cache (H1) vs reference text-buffer model after every notification",
         "Exploration by runtime monitoring: thousands of generated edit histories (6 alphabets x 4 line-ending styles, range/multi-change/full edits, save, close/reopen) are driven through the real server process; after every step the cached bytes read through hook H1 under the server's own request mutex are compared byte-for-byte with an independent LSP text-buffer model. Held means held on the histories run, not for all histories.",
         "Trusts hook H1 (verif tag) to return the cache the handlers use, the harness's R-text model of LSP positions, and jrpc2's notification ordering (fence).",
         "DESIGN.md 3/C02"),
 "C03": ("online monitor: type-1 diagnostics of the real server vs an independent reference recogniser (R-parse) over generated programs, mutants and sentinels",
         "Exploration by runtime monitoring: grammar-directed valid programs (all productions, numeral/string zoo, 5.4 operators, attribs, goto) rendered with random trivia and line endings, their single-token mutants and ~110 curated sentinel chunks are analysed by the real server; presence of a type-1 diagnostic is compared with the verdict of an independent recursive-descent recogniser written from the reference manual. Programs that only break a compile-time rule outside the grammar are don't-care.",
         "Trusts R-lex/R-parse (written from the manual; generator output and sentinels cross-check it on every run) and the type prefix in diagnostic messages. No Lua interpreter exists in the sandbox to validate the reference recogniser.",
         "DESIGN.md 3/C03"),
 "C05": ("online monitor: textDocument/definition answers of the real server vs an independent reference binder (R-bind) at both ends of every variable occurrence",
         "Exploration by runtime monitoring: generated 2-4 file workspaces (nesting, shadowing, upvalues, all loop forms, repeat-until, local functions, methods, cross-file globals) are loaded into the real server and go-to-definition is asked at both ends of every variable-name occurrence; each answer is compared with the binding computed by an independent implementation of Lua's scoping rules. Known position-based-resolver defects are listed as findings by syntactic trigger class; anything else is a violation.",
         "Trusts R-parse/R-bind; programs use conventional formatting and plain ASCII (column bookkeeping is C04's), no function literals inside assignment targets (not explored). Built-in names are don't-care.",
         "DESIGN.md 3/C05"),
 "C06": ("online monitor: textDocument/references answers vs the reference binder's occurrence classes (set equality)",
         "Exploration by runtime monitoring: on generated multi-file workspaces find-references is issued from every variable occurrence and the returned (file, range) set is compared with the occurrence class computed by an independent binder (locals: declaration, reads, writes; single-definition globals: every occurrence in every file). Mismatches are reduced to a root-cause signature; the known resolver trigger classes and multiply-assigned globals are listed findings, every other difference is a violation.",
         "Trusts R-parse/R-bind. Never-assigned globals and built-ins are don't-care. Globals assigned at several sites are only checked up to finding C06-K4.",
         "DESIGN.md 3/C06"),
 "C11": ("online monitor: WorkspaceEdit of textDocument/rename checked against the client's text, R-bind's occurrence class, and by applying it and re-binding / re-analysing",
         "Exploration by runtime monitoring: rename with a fresh identifier at every renameable occurrence of generated workspaces; each returned edit must be disjoint from the others and cover exactly the old name in the client's own text, the edit set must equal the reference binder's occurrence class, and after applying the edit the reference front end must accept the files with an isomorphic binding graph; on a sample a fresh server on the renamed workspace must report the same diagnostics up to the name.",
         "Trusts R-parse/R-bind and R-text. Diagnostics that mention a multiply-assigned global are excluded from the before/after comparison (their content varies between runs, C09).",
         "DESIGN.md 3/C11"),
 "C12": ("online relational monitor: definition / references / documentHighlight / hover answers of the same position cross-compared",
         "Exploration by runtime monitoring with a purely relational oracle: for every variable occurrence of generated workspaces and every identifier token of the repository's testdata the four answers are cross-checked (references resolve to the same definition, the position is among the references of its own definition, highlight equals same-file references, hover names the identifier and says local iff the definition is a local declaration). Disagreements rooted in the known resolver trigger classes, multiply-assigned globals and member names are listed findings.",
         "No external oracle; R-lex only supplies identifier positions and R-bind the local/global nature of a definition. Sessions contain no didChange (highlight is throttled after edits). Member identifiers are only exercised on testdata.",
         "DESIGN.md 3/C12"),
 "C10": ("Go race detector on a -race build under message floods + porcupine linearizability check of the recorded client history against a sequential replay",
         "Exploration by runtime monitoring with two sanitizer-style oracles: (1) the server built with -race is flooded with overlapping queries (10 kinds) and mutators (didChange/didSave/didOpen/didClose/watched/configuration) that are never awaited, each phase repeated; every DATA RACE block is classified by handler pair (telemetry-only state is counted, not alarmed); (2) the client-side history is checked with porcupine against a model whose state is the number of mutators applied and whose expected answers come from replaying the same mutators sequentially on a fresh server (twice, unstable entries dropped). A death under flood is a violation as well.",
         "Schedules are sampled by flooding and repetition, not enumerated; the evidence lists the (query kind x mutator kind) overlaps observed. The file system is constant inside a flood so that the sequential model is exact; empty highlight answers are exempt (wall-clock throttle).",
         "DESIGN.md 3/C10"),
 "C08": ("differential online monitor: folded publishDiagnostics view and probe answers of a long-lived server vs a fresh server on the same directory at every quiescent point; buffer-only parse for dirty documents",
         "Exploration by runtime monitoring, differential oracle without a model: generated histories of file creations, external changes, deletions (with watched-file notifications), opens, unsaved edits, saves and closes over 3-6 files with 11 content variants each; after every event the client view is either compared with a fresh server started on the current directory (quiescent points: diagnostics per file as multisets, plus definition/hover/documentSymbol probes on open documents) or, for documents with unsaved edits, with the buffer's own syntax errors / the saved file's non-syntax diagnostics.",
         "Assumes a fresh server is the reference (its own correctness is the business of the other properties) and unique names per file so that C09's tie-breaking cannot blur the comparison. External changes of a dirty document are checked only up to finding C08-K1.",
         "DESIGN.md 3/C08"),
 "C09": ("differential monitor over repeated runs: normalised diagnostics and probe answers of R independent server processes (GOMAXPROCS 1/2/16, shuffled file creation, per-process map seeds) must coincide",
         "Exploration by runtime monitoring: each workspace (generated with unique names, the repository's testdata projects, and collision workspaces with duplicate globals of different arity/level, same-basename modules and duplicate annotation classes) is analysed by 6 (quick) or 30 (thorough) independent server processes under varied GOMAXPROCS and file creation order; the sorted diagnostics and the answers to a probe set (definition, hover, references, completion, documentSymbol, workspace/symbol) must be identical across runs. The evidence reports the maximum number of distinct observations per workspace kind.",
         "'For all schedules' is sampled by repetition, not enumerated: a dependence that needs a rarer interleaving than R runs produce goes unnoticed.",
         "DESIGN.md 3/C09"),
 "C17": ("online monitor: published diagnostics under configuration c vs the filtered all-enabled view (reference filter R-conf), for three delivery modes",
         "Exploration by runtime monitoring: a zoo workspace that triggers diagnostic types 1-10 and 12-21 (22, 26 in config-file mode) in files of four directories is analysed under each single flag off, each single flag on, random flag subsets, master off, error-ignore patterns (file, folder, regex, non-matching, invalid regex) and analysis-ignore patterns, each delivered as initialization options, as a later didChangeConfiguration and as luahelper.json; the published view must equal the all-enabled view of the same delivery mode filtered by the configuration (analysis-ignore: the all-enabled view of the workspace without those files). Invalid patterns must leave the server alive.",
         "The oracle is differential against the all-enabled run of the same server. Types 11 and 23-25, 27-29 are not produced by the zoo; patterns that match by substring but not as a path component are not generated (the documentation is silent on them).",
         "DESIGN.md 3/C17"),
 "C04": ("online monitor: every range of every answer/notification sliced out of the client's own text (well-formedness + text under named ranges)",
         "Exploration by runtime monitoring: files of one-line statements, each preceded (or interleaved) on its line with a prefix of one of 26 classes (tabs, short strings with every escape form and 2/3/4-byte characters, line continuations, \\z, long strings and comments of several levels, with or without line breaks) and rendered with LF, CRLF or CR, are loaded into the real server; every range in publishDiagnostics, definition, references, documentHighlight, rename, documentSymbol and workspace/symbol answers must lie inside the client's own text with start <= end and, where it designates a named entity (variables; diagnostics 2/3/4/13/17 quoting a name), cover exactly that identifier; symbol ranges must contain the declared name.",
         "Judged on the client's text only (R-text line/UTF-16 model). Whether the right entity was returned is C05/C06. Symbol selectionRange == range is accepted (LSP allows it). Member names are not queried.",
         "DESIGN.md 3/C04"),
 "C07": ("online monitor: type 2/3/4/17 diagnostics of the real server vs three-valued expectations computed by the reference binder (R-bind) per read occurrence and per declaration",
         "Exploration by runtime monitoring: 69 planted expectations (client mode, config-file mode, config-file mode with ignore lists) and thousands of generated multi-file workspaces (every 4th in config-file mode); every read of a name and every local declaration is classified by an independent binder as MUST / MUST-NOT / DON'T-CARE for undefined-variable (2), use-before-definition (3) and unused-local (4) and compared with the published diagnostics at exactly that identifier's range; type 17 must never sit on a local that is read.",
         "DON'T-CARE: built-in names, the tool's documented idiom suppressions (and/or/==/~=/not operands, conditions, self reference inside the defining statement), definitions that only occur inside function bodies, locals aliasing library names or require results. Consequences of the resolver trigger classes are findings C07-K1..K3.",
         "DESIGN.md 3/C07"),
 "C20": ("online monitor: per planted site, diagnostics of the ten pattern checks touching the site's line vs a three-valued expectation table (R-pattern)",
         "Exploration by runtime monitoring: valid programs in which instances, near-misses and don't-care forms of the checks 5, 7, 8, 13, 14, 15, 16, 19, 20 and 21 (80 site classes) are planted one per line at random nesting depths and, for expression patterns, in random expression contexts; for every site and each of the ten types the number of published diagnostics touching the line must equal the expectation (MUST n / MUST-NOT 0); everything the documentation does not settle is DON'T-CARE.",
         "The expectation table is written from docs/manual/config.md and the setting descriptions; sites are one per line so that attribution by line is exact.",
         "DESIGN.md 3/C20"),
 "C19": ("online monitor: documentSymbol and workspace/symbol answers vs the list of planted declarations (positions from the reference lexer)",
         "Exploration by runtime monitoring: generated files with uniquely named top-level locals, global variables, global/local functions (statement and assignment forms), tables with function members, t.f / t:m / localtable.f / a.b.c function statements, globals assigned in blocks and annotated class tables; every planted declaration must appear in the document outline (any depth) with a well-formed range that contains its declaring identifier, and every global/function must be returned by workspace/symbol for its exact name at that declaration.",
         "Completeness is judged for the planted declaration kinds only; locals and functions nested inside function bodies are not required. Three-level member functions are finding C19-K1.",
         "DESIGN.md 3/C19"),
 "C18": ("online monitor: type-6 diagnostics, definition and hover on module strings vs the documented mapping (reference resolver R-mod) before and after file create/delete events",
         "Exploration by runtime monitoring: generated directory trees (duplicate base names, name.lua vs name/init.lua, native .so, names that only match across a path-component boundary) with a main file requiring modules by dotted, slashed and suffix-only strings, require with/without parentheses and dofile; for every module string the 'file not found' diagnostic, the go-to-definition target and the hover text must agree with the documented mapping and with each other; then a module file is deleted or created with a watched-files event and everything is compared again. One labelled case runs in a workspace whose path contains a dot.",
         "R-mod returns a candidate set (suffix semantics); any candidate is accepted, a single candidate must be hit exactly. Only the default separator is explored; suffix-only names of .so modules are not asserted (undocumented).",
         "DESIGN.md 3/C18"),
 "C13": ("online monitor: hover contents vs the planted declaration and its attached comment (byte comparison after the tool's documented marker clean-up)",
         "Exploration by runtime monitoring: generated declarations (local number/string/table, global, global/local function, table member functions) x comment placement (trailing, block of 1-3 lines above, both, none, detached by a blank line) x script (ASCII, Latin-1, Cyrillic, Greek, CJK, Hangul, astral, mixed) x comment marker; hover at the declaration and at a use must show a label with the identifier, `local` iff declared local, the literal as written (integers, strings), the parameters in order, and as documentation exactly the bytes of the attached comment (trailing comment first, else the block ending on the previous line, else nothing).",
         "The expected comment attachment rule is the one the property states. Float literals are not asserted (the tool prints them in exponent form).",
         "DESIGN.md 3/C13"),
 "C14": ("online monitor: completion labels at inserted probe sites vs the reference binder's visible-name set at the cursor",
         "Exploration by runtime monitoring: in generated programs with workspace-unique names a probe `print(<strict prefix>)` is inserted as an unsaved edit at statement boundaries of every block (first statement, right after a declaration, last statement, on the line of `end`, inside nested functions/blocks, end of file); completion right after the prefix must offer every local, parameter and loop variable visible there per Lua's scoping and every workspace global with that prefix, and no local declared later or in a block that does not enclose the cursor.",
         "DON'T-CARE: a local inside its own declaration statement, the probe word itself, names that also occur as free (global) names, keywords/snippets/built-ins in the list. Probes inside function literals in for headers are finding C14-K1.",
         "DESIGN.md 3/C14"),
 "C15": ("online monitor: member completion (typing flow) and member go-to-definition on annotated variables vs the transitive field set of a reference class-graph model (R-class)",
         "Exploration by runtime monitoring: generated class hierarchies (up to 10 classes, up to 3 parents, diamonds, every 4th graph cyclic incl. cyclic aliases, classes split over files, class tables with methods and assigned members) and variables typed through a class, aliases of aliases, T[], table<K,V> and aliased arrays; go-to-definition on v.member must reach the ---@field line of the declaring (possibly inherited) class, and after editing the open document to end in `v.` completion with trigger '.' must return exactly the transitive field set plus the documented assigned members (superset for cyclic graphs); every query on cyclic graphs/aliases must return and the server must stay alive.",
         "Field names are unique per class graph (no overriding), one definition per class name (duplicates are C09's). Union types are not asserted.",
         "DESIGN.md 3/C15"),
 "C16": ("offline-style monitor in a worker process linking LuaHelper's own annotation parser: understood structure vs an independent model of the documented grammar (R-anno) + print/re-read round trip; end-to-end type-18 / hover observations through the server",
         "Exploration by runtime monitoring: tens of thousands of annotation lines derived from the grammar documented in docs/manual/annotate.md (type, class, field, param, return, alias, generic, overload, vararg; unions, arrays, table<K,V>, fun types, parentheses, optional markers, trailing @comments; type depth up to 4) are parsed by LuaHelper's annotation parser inside a child process (a panic is observed, not fatal to the monitor); the structure it understood is dumped and compared with the S-expression of an independent grammar model, and printable types are printed with TypeConvertStr and parsed again. End-to-end: conformant lines in real files get no type-18 diagnostic; one clearly malformed line may only add type-18 diagnostics on that line, must not change diagnostics elsewhere nor the hover of a neighbouring annotated variable, and must not take the server down.",
         "fun types with a return list are parenthesised wherever the documented grammar is ambiguous (nested in unions, parameter lists, table<>, type lists). fun types are excluded from the round trip (printed as function(...)).",
         "DESIGN.md 3/C16"),
}

PENDING_REASON = "check not built yet in this revision of /verif (work in progress; see DESIGN.md section 3 for the planned monitor)"

def main():
    props = [json.loads(l) for l in open(os.path.join(HERE, "properties.jsonl"))]
    hooks_commits = []
    try:
        out = subprocess.run(["git", "-C", "/repo", "log", "--format=%H %s"], capture_output=True, text=True).stdout
        for line in out.splitlines():
            h, s = line.split(" ", 1)
            if s.startswith("verif hooks"):
                hooks_commits.append(h)
    except Exception:
        pass
    checks, na = [], []
    for p in props:
        pid = p["id"]
        if pid in CLAIMED:
            tech, text, note, ref = CLAIMED[pid]
            checks.append({
                "property_id": pid,
                "quick_cmd": "./run.sh %s quick" % pid,
                "thorough_cmd": "./run.sh %s thorough" % pid,
                "evidence_file": "/verif/evidence/%s.json" % pid,
                "replay_cmd_template": "./run.sh replay {path}",
                "engine": "vcheck",
                "level_claimed": {"category": "exploration", "text": text, "design_ref": ref},
                "level_note": note,
                "technique": tech,
            })
        else:
            na.append({"property_id": pid, "reason": NA.get(pid, PENDING_REASON)})
    m = {
        "version": 1,
        "setup_cmd": "./run.sh setup",
        "hooks": {
            "guard": "verif",
            "enable": "go build -tags verif (run.sh builds /repo/luahelper-lsp with -tags verif; hooks: langserver/verif_hooks.go, check/compiler/parser/verif_hook.go + verif_nohook.go, check/compiler/lexer/verif_hook.go, two call lines in parser.go)",
            "baseline_off_cmd": "cd /repo/luahelper-lsp && GOFLAGS=-mod=mod GOPROXY=off GOSUMDB=off go test -vet=off -count=1 -json ./...",
            "source_commits": hooks_commits,
            "add_only": True,
        },
        "engines": [{"name": "vcheck", "path": "/verif/harness", "serves_properties": sorted(CLAIMED),
                     "kind_free_text": "Go harness: LSP driver over the real server child process (built with -tags verif, -race where stated), reference models, generators, online/offline monitors"}],
        "checks": checks,
        "not_applicable": na,
        "notes": "Technique family: runtime monitoring and sanitizers. Exit 0 held on what was observed, 1 violation (VIOLATION line), 2 inconclusive/broken. VERIF_REPO redirects the tree under test.",
    }
    json.dump(m, open(os.path.join(HERE, "MANIFEST.json"), "w"), indent=1)
    print("claimed:", sorted(CLAIMED), "not_applicable:", [x["property_id"] for x in na])

NA = {}

if __name__ == "__main__":
    main()
