#!/bin/bash
# tools/seedverify.sh <dir-with-patch.diff-and-demo> <ID>
# Confirms a seeded change in a fresh scratch worktree of /repo HEAD (removed afterwards):
#   applies, builds, the repository's own tests pass with it, the demonstration fails with it and passes without it.
# Demonstrations: *_test.go files are copied into luahelper-lsp/langserver and run with -run Seed;
# *.py drivers are run against a freshly built binary (argument = path of the binary).
set -u
export GOFLAGS=-mod=mod GOPROXY=off GOSUMDB=off GOTOOLCHAIN=local
SRC="$1"; ID="$2"
PATCH="$SRC/patch.diff"
WT=/tmp/sv/$ID
rm -rf "$WT"; git -C /repo worktree prune; mkdir -p /tmp/sv
git -C /repo worktree add -q --detach "$WT" HEAD || exit 2
trap 'git -C /repo worktree remove --force "$WT" >/dev/null 2>&1' EXIT
cd "$WT"
git apply --check "$PATCH" || { echo "$ID: patch does not apply to /repo HEAD"; exit 2; }
git apply "$PATCH"
( cd luahelper-lsp && go build ./... ) || { echo "$ID: does not build"; exit 2; }
npass=$(cd luahelper-lsp && go test -vet=off -count=1 -v ./... 2>&1 | tee "$WT/suite.log" | grep -c '^--- PASS\|^    --- PASS')
nfail=$(grep -c '^--- FAIL\|^FAIL' "$WT/suite.log")
echo "$ID: suite with change: top-level+sub PASS lines=$npass FAIL lines=$nfail"
run_demo() {
  local rc=0
  if ls "$SRC"/demo/*_test.go >/dev/null 2>&1; then
    cp "$SRC"/demo/*_test.go luahelper-lsp/langserver/
    ( cd luahelper-lsp && go test -vet=off -count=1 -run 'Seed' ./langserver/ ) > "$WT/demo.log" 2>&1 || rc=1
    for f in "$SRC"/demo/*_test.go; do rm -f "luahelper-lsp/langserver/$(basename "$f")"; done
  else
    ( cd luahelper-lsp && go build -o "$WT/lualsp" . ) || return 2
    for py in "$SRC"/demo/demo*.py "$SRC"/demo/stdio*.py; do
      [ -f "$py" ] || continue
      python3 "$py" "$WT/lualsp" > "$WT/demo.log" 2>&1 || rc=1
    done
  fi
  return $rc
}
run_demo; with=$?
git apply -R "$PATCH"
run_demo; without=$?
echo "$ID: demo with change rc=$with (want 1), without change rc=$without (want 0)"
[ "$with" = 1 ] && [ "$without" = 0 ] && [ "$nfail" = 0 ] && echo "$ID: CONFIRMED" || { echo "$ID: NOT CONFIRMED"; tail -5 "$WT/demo.log"; }
